"""Build the ctypes shim around /repo/depccg/parsing.h from the current working
tree.  The object is cached under /verif/.build keyed by the content hash of
parsing.h + shim.cpp + flags, so every check "rebuilds" (re-hashes) on start and
really recompiles only when a source changed."""
import hashlib
import os
import subprocess
import sys
import fcntl

HERE = os.path.dirname(os.path.abspath(__file__))
VERIF = os.path.dirname(HERE)
BUILD_DIR = os.environ.get('DEPSIM_BUILD_DIR', os.path.join(VERIF, '.build'))


def repo_root():
    return os.environ.get('DEPSIM_REPO', '/repo')


def hooks_enabled():
    return os.environ.get('DEPCCG_VERIF', '1') == '1'


def _flags():
    flags = ['-O2', '-std=c++11', '-shared', '-fPIC', '-Wall', '-Wno-unused-variable']
    if hooks_enabled():
        flags.append('-DDEPCCG_VERIF')
    return flags


def source_hash():
    h = hashlib.sha256()
    for path in (os.path.join(repo_root(), 'depccg', 'parsing.h'),
                 os.path.join(HERE, 'shim.cpp')):
        with open(path, 'rb') as f:
            h.update(f.read())
        h.update(b'\0')
    h.update(' '.join(_flags()).encode())
    return h.hexdigest()[:16]


def build(verbose=False):
    """returns path of the shared object for the current tree"""
    os.makedirs(BUILD_DIR, exist_ok=True)
    digest = source_hash()
    out = os.path.join(BUILD_DIR, f'libdepsim-{digest}.so')
    if os.path.exists(out):
        return out
    lock_path = os.path.join(BUILD_DIR, '.lock')
    with open(lock_path, 'w') as lock:
        fcntl.flock(lock, fcntl.LOCK_EX)
        if os.path.exists(out):
            return out
        tmp = out + f'.tmp{os.getpid()}'
        cmd = ['g++'] + _flags() + ['-I', repo_root(), os.path.join(HERE, 'shim.cpp'), '-o', tmp]
        if verbose:
            print('depsim build:', ' '.join(cmd), file=sys.stderr)
        proc = subprocess.run(cmd, capture_output=True, text=True)
        if proc.returncode != 0:
            sys.stderr.write(proc.stdout + proc.stderr)
            raise RuntimeError('HARNESS-ERROR: building the parsing.h shim failed')
        os.replace(tmp, out)
        # drop stale objects (keep the newest few)
        objs = sorted(
            (os.path.join(BUILD_DIR, f) for f in os.listdir(BUILD_DIR)
             if f.startswith('libdepsim-') and f.endswith('.so')),
            key=os.path.getmtime)
        for old in objs[:-6]:
            try:
                os.unlink(old)
            except OSError:
                pass
    return out


if __name__ == '__main__':
    print(build(verbose=True))
