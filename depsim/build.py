"""Build the ctypes shim around /repo/depccg/parsing.h from the current working
tree.  The object is cached under /verif/.build keyed by the content hash of
parsing.h + shim.cpp + flags, so every check "rebuilds" (re-hashes) on start and
really recompiles only when a source changed."""
import hashlib
import os
import subprocess
import sys
import fcntl

HERE = os.path.dirname(os.path.abspath(__file__))
VERIF = os.path.dirname(HERE)
BUILD_DIR = os.environ.get('DEPSIM_BUILD_DIR', os.path.join(VERIF, '.build'))


def repo_root():
    return os.environ.get('DEPSIM_REPO', '/repo')


def hooks_enabled():
    return os.environ.get('DEPCCG_VERIF', '1') == '1'


VARIANTS = ('release', 'assert')


def _flags(variant='release'):
    """'release' mirrors how setup.py builds the shipped extension: the interpreter's own
    CFLAGS (which carry -DNDEBUG -O3) plus setup.py's -std=c++11.  'assert' is the same
    source with assertions (and libstdc++'s container assertions) alive."""
    if variant == 'release':
        import sysconfig
        flags = [f for f in (sysconfig.get_config_var('CFLAGS') or '-DNDEBUG -O3 -Wall').split() if f != '-g']
        if '-DNDEBUG' not in flags:
            flags.append('-DNDEBUG')
    elif variant == 'assert':
        flags = ['-O1', '-UNDEBUG', '-D_GLIBCXX_ASSERTIONS', '-Wall']
    else:
        raise ValueError(variant)
    flags += ['-std=c++11', '-shared', '-fPIC', '-Wno-unused-variable']
    if hooks_enabled():
        flags.append('-DDEPCCG_VERIF')
    return flags


def source_hash(variant='release'):
    h = hashlib.sha256()
    for path in (os.path.join(repo_root(), 'depccg', 'parsing.h'),
                 os.path.join(HERE, 'shim.cpp')):
        with open(path, 'rb') as f:
            h.update(f.read())
        h.update(b'\0')
    h.update(' '.join(_flags(variant)).encode())
    return h.hexdigest()[:16]


def build(verbose=False, variant='release'):
    """returns path of the shared object for the current tree"""
    os.makedirs(BUILD_DIR, exist_ok=True)
    digest = source_hash(variant)
    out = os.path.join(BUILD_DIR, f'libdepsim-{variant}-{digest}.so')
    if os.path.exists(out):
        return out
    lock_path = os.path.join(BUILD_DIR, '.lock')
    with open(lock_path, 'w') as lock:
        fcntl.flock(lock, fcntl.LOCK_EX)
        if os.path.exists(out):
            return out
        tmp = out + f'.tmp{os.getpid()}'
        cmd = ['g++'] + _flags(variant) + ['-I', repo_root(), os.path.join(HERE, 'shim.cpp'), '-o', tmp]
        if verbose:
            print('depsim build:', ' '.join(cmd), file=sys.stderr)
        proc = subprocess.run(cmd, capture_output=True, text=True)
        if proc.returncode != 0:
            sys.stderr.write(proc.stdout + proc.stderr)
            raise RuntimeError('HARNESS-ERROR: building the parsing.h shim failed')
        os.replace(tmp, out)
        # drop stale objects (keep the newest few)
        objs = sorted(
            (os.path.join(BUILD_DIR, f) for f in os.listdir(BUILD_DIR)
             if f.startswith('libdepsim-') and f.endswith('.so')),
            key=os.path.getmtime)
        for old in objs[:-12]:
            try:
                os.unlink(old)
            except OSError:
                pass
    return out


if __name__ == '__main__':
    for v in VARIANTS:
        print(build(verbose=True, variant=v))
