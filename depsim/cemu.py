"""C/C++ object emulation for the transliterated parsing.pyx.

Everything here gives a Python face to the *real* C++ objects of parsing.h
(through the shim): `config`, `pair`, `unordered_set[unsigned]`, `cache_type`,
`vector[combinator_result]*`, `cell_item*`, and `parse_sentence` itself.  C
conversion semantics that Cython applies at the boundary (unsigned overflow
checks, float32 storage, bint truthiness) are reproduced explicitly.
"""
import ctypes
import sys
import numpy

from depsim import build as _build

UINT_MAX = 4294967295
NULL = None


class CUndefinedBehaviour(Exception):
    """raised where the real extension would read out of bounds / crash"""


class _Lib(object):
    def __init__(self, variant='release'):
        self.variant = variant
        self.path = None
        self.lib = None

    def load(self):
        if self.lib is not None:
            return self.lib
        path = _build.build(variant=self.variant)
        lib = ctypes.CDLL(path)
        self.path = path
        self.lib = lib
        vp = ctypes.c_void_p
        u = ctypes.c_uint
        ul = ctypes.c_ulong
        lib.ds_has_hook.restype = ctypes.c_int
        lib.ds_pop_log_enable.argtypes = [ctypes.c_int]
        lib.ds_pop_log_clear.argtypes = []
        lib.ds_pop_count.restype = ul
        lib.ds_pop_log_size.restype = ul
        lib.ds_pop_log_copy.argtypes = [vp]
        lib.ds_sizeof_pop_record.restype = ul
        lib.ds_item_num.restype = ctypes.c_double
        lib.ds_item_num.argtypes = [vp, ctypes.c_int]
        lib.ds_item_child.restype = vp
        lib.ds_item_child.argtypes = [vp, ctypes.c_int]
        lib.ds_config_new.restype = vp
        lib.ds_config_free.argtypes = [vp]
        lib.ds_config_set.argtypes = [vp, ctypes.c_int, ctypes.c_double]
        lib.ds_config_get.restype = ctypes.c_double
        lib.ds_config_get.argtypes = [vp, ctypes.c_int]
        lib.ds_item_score.restype = ctypes.c_float
        lib.ds_item_score.argtypes = [vp]
        lib.ds_uint_max.restype = u
        lib.ds_set_new.restype = vp
        lib.ds_set_free.argtypes = [vp]
        lib.ds_set_insert.argtypes = [vp, u]
        lib.ds_set_size.restype = ul
        lib.ds_set_size.argtypes = [vp]
        lib.ds_cache_new.restype = vp
        lib.ds_cache_free.argtypes = [vp]
        lib.ds_cache_size.restype = ul
        lib.ds_cache_size.argtypes = [vp]
        lib.ds_cache_count.restype = ctypes.c_long
        lib.ds_cache_count.argtypes = [vp, u, u]
        lib.ds_cache_touch.argtypes = [vp, u, u]
        lib.ds_cache_get.restype = ctypes.c_int
        lib.ds_cache_get.argtypes = [
            vp, u, u, u,
            ctypes.POINTER(u), ctypes.POINTER(u), ctypes.POINTER(ctypes.c_int),
            ctypes.POINTER(ctypes.c_char_p), ctypes.POINTER(ul),
            ctypes.POINTER(ctypes.c_char_p), ctypes.POINTER(ul)]
        lib.ds_cache_keys.restype = ul
        lib.ds_cache_keys.argtypes = [vp, vp, ul]
        lib.ds_results_push.argtypes = [vp, u, u, ctypes.c_int,
                                        ctypes.c_char_p, ul, ctypes.c_char_p, ul]
        lib.ds_parse_sentence.restype = ctypes.c_long
        lib.ds_parse_sentence.argtypes = [
            vp, vp, u, vp, vp, vp, vp, vp, vp, vp, vp, ctypes.c_char_p, ul]
        _check_layout(lib)
        return lib


_LIBS = {v: _Lib(v) for v in _build.VARIANTS}
_current = ['release']


def select_variant(variant):
    """choose which build of parsing.h the C objects created from now on belong to
    (called once at the start of a run, before any C object exists)"""
    if variant not in _LIBS:
        raise ValueError(variant)
    _current[0] = variant


def lib():
    return _LIBS[_current[0]].load()


def load_all():
    for l in _LIBS.values():
        l.load()


POP_DTYPE = numpy.dtype([
    ('fin', 'i4'), ('cat', 'u4'), ('in_score', 'f4'), ('out_score', 'f4'),
    ('start_of_span', 'u4'), ('span_length', 'u4'), ('head_id', 'u4'), ('rule_id', 'u4')])


def _check_layout(lib):
    # cell_item and config are reached through accessor functions of the shim, so
    # their layout is free to change; only the shim's own record is mirrored here
    if lib.ds_sizeof_pop_record() != POP_DTYPE.itemsize:
        raise RuntimeError('HARNESS-ERROR: pop record layout mismatch')
    if lib.ds_uint_max() != UINT_MAX:
        raise RuntimeError('HARNESS-ERROR: UINT_MAX mismatch')


# ---------------------------------------------------------------- conversions

def _to_unsigned(value, what='value'):
    """Cython's object -> unsigned int conversion"""
    if isinstance(value, bool):
        value = int(value)
    if isinstance(value, float):
        raise TypeError(f'an integer is required ({what})')
    if not isinstance(value, int):
        if hasattr(value, '__index__'):
            value = value.__index__()
        else:
            raise TypeError(f'an integer is required ({what})')
    if value < 0:
        raise OverflowError("can't convert negative value to unsigned int")
    if value > UINT_MAX:
        raise OverflowError('value too large to convert to unsigned int')
    return value


def _to_float(value):
    return float(value)


def _to_bint(value):
    return bool(value)


# ---------------------------------------------------------------- config

class config(object):
    """`cdef config c_config` -- backed by the real struct handed to C++"""
    _unsigned = ('num_tags', 'pruning_size', 'nbest', 'max_step')
    _float = ('unary_penalty', 'beta')
    _bint = ('use_beta',)

    _index = {'num_tags': 0, 'unary_penalty': 1, 'beta': 2, 'use_beta': 3,
              'pruning_size': 4, 'nbest': 5, 'max_step': 6}

    def __init__(self):
        object.__setattr__(self, '_ptr', lib().ds_config_new())

    def __setattr__(self, name, value):
        if name in self._unsigned:
            v = _to_unsigned(value, name)
        elif name in self._float:
            v = _to_float(value)
        elif name in self._bint:
            v = 1 if _to_bint(value) else 0
        else:
            raise AttributeError(name)
        lib().ds_config_set(self._ptr, self._index[name], float(v))

    def __getattr__(self, name):
        if name not in self._index:
            raise AttributeError(name)
        v = lib().ds_config_get(self._ptr, self._index[name])
        if name in self._unsigned:
            return int(v)
        if name in self._bint:
            return bool(v)
        return v

    def __del__(self):
        try:
            if self._ptr:
                lib().ds_config_free(self._ptr)
                object.__setattr__(self, '_ptr', None)
        except Exception:
            pass


# ---------------------------------------------------------------- pair

class pair_unsigned_unsigned(object):
    """`cdef pair[unsigned, unsigned] key`; C assignment of an int literal wraps"""

    def __init__(self):
        object.__setattr__(self, '_first', 0)
        object.__setattr__(self, '_second', 0)

    def __setattr__(self, name, value):
        if name not in ('first', 'second'):
            raise AttributeError(name)
        if isinstance(value, int) and not isinstance(value, bool) and value < 0:
            # only a C integer literal (e.g. `-1`) reaches here in the source;
            # a C constant is converted with wrap-around
            value = value % (UINT_MAX + 1)
        object.__setattr__(self, '_' + name, _to_unsigned(value, name))

    @property
    def first(self):
        return self._first

    @property
    def second(self):
        return self._second


# ---------------------------------------------------------------- set

class unordered_set_unsigned(object):
    def __init__(self):
        self._ptr = lib().ds_set_new()
        self._py = set()

    def insert(self, value):
        v = _to_unsigned(value)
        lib().ds_set_insert(self._ptr, v)
        self._py.add(v)

    def __len__(self):
        return lib().ds_set_size(self._ptr)

    def __del__(self):
        try:
            if self._ptr:
                lib().ds_set_free(self._ptr)
                self._ptr = None
        except Exception:
            pass


# ---------------------------------------------------------------- cache

class _CResult(object):
    """one combinator_result read out of the C++ cache"""
    __slots__ = ('cat_id', 'rule_id', 'head_is_left', 'op_string', 'op_symbol')


class _CacheVector(object):
    def __init__(self, cache_ptr, a, b):
        self._ptr = cache_ptr
        self._a = a
        self._b = b

    def __len__(self):
        n = lib().ds_cache_count(self._ptr, self._a, self._b)
        return max(n, 0)

    def __iter__(self):
        for i in range(len(self)):
            yield self[i]

    def __getitem__(self, idx):
        idx = _to_unsigned(idx, 'index')
        cat_id = ctypes.c_uint()
        rule_id = ctypes.c_uint()
        head = ctypes.c_int()
        s1 = ctypes.c_char_p()
        l1 = ctypes.c_ulong()
        s2 = ctypes.c_char_p()
        l2 = ctypes.c_ulong()
        status = lib().ds_cache_get(
            self._ptr, self._a, self._b, idx,
            ctypes.byref(cat_id), ctypes.byref(rule_id), ctypes.byref(head),
            ctypes.byref(s1), ctypes.byref(l1), ctypes.byref(s2), ctypes.byref(l2))
        if status != 0:
            raise CUndefinedBehaviour(
                f'cache[({self._a}, {self._b})][{idx}] is out of range '
                f'(stored: {lib().ds_cache_count(self._ptr, self._a, self._b)})')
        r = _CResult()
        r.cat_id = cat_id.value
        r.rule_id = rule_id.value
        r.head_is_left = bool(head.value)
        r.op_string = ctypes.string_at(s1, l1.value)
        r.op_symbol = ctypes.string_at(s2, l2.value)
        return r


def c_integer(value):
    """`<size_t>ptr` / `<long>x`: the address of a C object, or the integer itself"""
    if isinstance(value, CellItemPtr):
        return int(value._p)
    if value is None:
        return 0
    return int(value)


class _CacheMap(object):
    def __init__(self, ptr):
        self._ptr = ptr

    def __getitem__(self, key):
        if not isinstance(key, pair_unsigned_unsigned):
            raise TypeError('cache key must be a pair[unsigned, unsigned]')
        if lib().ds_cache_count(self._ptr, key.first, key.second) < 0:
            # unordered_map::operator[] default-constructs the entry
            lib().ds_cache_touch(self._ptr, key.first, key.second)
        return _CacheVector(self._ptr, key.first, key.second)


class CachePtr(object):
    """`cache_type *cache`: cache[0] dereferences"""

    def __init__(self, ptr):
        self._ptr = ptr

    def __getitem__(self, idx):
        if idx != 0:
            raise CUndefinedBehaviour('cache pointer indexed with non-zero offset')
        return _CacheMap(self._ptr)


class cache_type(object):
    """`cdef cache_type c_cache` (an object that lives as long as the call)"""

    def __init__(self):
        self._ptr = lib().ds_cache_new()

    def __len__(self):
        return lib().ds_cache_size(self._ptr)

    def keys(self):
        n = len(self)
        buf = (ctypes.c_uint * (2 * max(n, 1)))()
        got = lib().ds_cache_keys(self._ptr, buf, n)
        return sorted((buf[2 * i], buf[2 * i + 1]) for i in range(got))

    def count(self, a, b):
        return lib().ds_cache_count(self._ptr, a, b)

    def __del__(self):
        try:
            if self._ptr:
                lib().ds_cache_free(self._ptr)
                self._ptr = None
        except Exception:
            pass


# ---------------------------------------------------------------- results vector

class combinator_result(object):
    """`cdef combinator_result c_result` (a C struct local)"""

    def __init__(self):
        object.__setattr__(self, '_v', {
            'cat_id': 0, 'rule_id': 0, 'head_is_left': False,
            'op_string': b'', 'op_symbol': b''})

    def __setattr__(self, name, value):
        if name in ('cat_id', 'rule_id'):
            self._v[name] = _to_unsigned(value, name)
        elif name == 'head_is_left':
            self._v[name] = _to_bint(value)
        elif name in ('op_string', 'op_symbol'):
            if isinstance(value, bytearray):
                value = bytes(value)
            if not isinstance(value, bytes):
                raise TypeError(f'expected bytes, {type(value).__name__} found')
            self._v[name] = value
        else:
            raise AttributeError(name)

    def __getattr__(self, name):
        try:
            return self._v[name]
        except KeyError:
            raise AttributeError(name)


class ResultsVectorPtr(object):
    """`vector[combinator_result] *results`"""

    def __init__(self, ptr):
        self._ptr = ptr

    def push_back(self, c_result):
        v = c_result._v
        lib().ds_results_push(
            self._ptr, v['cat_id'], v['rule_id'], 1 if v['head_is_left'] else 0,
            v['op_string'], len(v['op_string']), v['op_symbol'], len(v['op_symbol']))


# ---------------------------------------------------------------- cell_item

class CellItemPtr(object):
    """`cell_item *item`: fields are read through the shim's accessors"""
    __slots__ = ('_p',)

    def __init__(self, p):
        self._p = p          # address (int)

    @staticmethod
    def wrap(p):
        if not p:
            return None
        return CellItemPtr(int(p))

    def _num(self, field):
        return lib().ds_item_num(self._p, field)

    @property
    def fin(self):
        return bool(self._num(0))

    @property
    def cat(self):
        return int(self._num(1))

    @property
    def left(self):
        return CellItemPtr.wrap(lib().ds_item_child(self._p, 0))

    @property
    def right(self):
        return CellItemPtr.wrap(lib().ds_item_child(self._p, 1))

    @property
    def in_score(self):
        return self._num(4)

    @property
    def out_score(self):
        return self._num(5)

    @property
    def start_of_span(self):
        return int(self._num(6))

    @property
    def span_length(self):
        return int(self._num(7))

    @property
    def head_id(self):
        return int(self._num(8))

    @property
    def rule_id(self):
        return int(self._num(9))

    def score(self):
        return float(lib().ds_item_score(self._p))


# ---------------------------------------------------------------- helpers used by the rewritten text

def as_float_ptr(array):
    """`<float*>array.data` for an ndarray already checked by check_buffer"""
    return array.ctypes.data_as(ctypes.c_void_p)


def check_buffer(array, name):
    """`cdef np.ndarray[float, ndim=2, mode='c'] name` acquisition check"""
    if array is None:
        return
    if not isinstance(array, numpy.ndarray):
        raise TypeError(
            f'Cannot convert {type(array).__name__} to numpy.ndarray')
    if array.ndim != 2:
        raise ValueError(
            f'Buffer has wrong number of dimensions (expected 2, got {array.ndim})')
    if array.dtype != numpy.float32:
        raise ValueError(
            f"Buffer dtype mismatch, expected 'float' but got '{array.dtype}'")
    if not array.flags['C_CONTIGUOUS']:
        raise ValueError('ndarray is not C-contiguous')


def check_type(value, type_, name, arg=False):
    """`cdef list x` / `def f(list x)`: exact builtin type or None"""
    if value is None:
        return
    if not isinstance(value, type_):
        if arg:
            raise TypeError(
                f"Argument '{name}' has incorrect type "
                f"(expected {type_.__name__}, got {type(value).__name__})")
        raise TypeError(f'Expected {type_.__name__}, got {type(value).__name__}')


_unraisable = []


def noexcept(default):
    """`cdef T f(...) noexcept`: an exception is printed and swallowed and the
    function returns the zero value"""
    def deco(fn):
        def wrapper(*args):
            try:
                return fn(*args)
            except BaseException as e:  # noqa
                _unraisable.append((fn.__name__, repr(e)))
                if isinstance(e, CUndefinedBehaviour):
                    _ub.append(repr(e))
                return default
        wrapper.__name__ = fn.__name__
        wrapper.__wrapped__ = fn
        return wrapper
    return deco


_ub = []


def take_unraisable():
    out = list(_unraisable)
    del _unraisable[:]
    return out


def take_ub():
    out = list(_ub)
    del _ub[:]
    return out


# ---------------------------------------------------------------- parse_sentence

_SCAFFOLD_T = ctypes.CFUNCTYPE(
    ctypes.c_int, ctypes.c_void_p, ctypes.c_uint, ctypes.c_uint, ctypes.c_void_p)
_FINALIZER_T = ctypes.CFUNCTYPE(
    ctypes.c_uint, ctypes.c_void_p, ctypes.POINTER(ctypes.c_uint),
    ctypes.c_void_p, ctypes.c_void_p)

stats = {'parse_calls': 0, 'pops': 0}
last_pops = None


def pop_logging(on):
    lib().ds_pop_log_enable(1 if on else 0)


def take_pop_log():
    n = lib().ds_pop_log_size()
    arr = numpy.zeros(n, dtype=POP_DTYPE)
    if n:
        lib().ds_pop_log_copy(arr.ctypes.data_as(ctypes.c_void_p))
    return arr


def parse_sentence(c_tag_scores, c_dep_scores, length, c_possible_root_cat,
                   binary_callback, unary_callback, finalizer, scaffold,
                   finalizer_args, c_cache, c_config):
    """the `parse_sentence(...) except +` call of parsing.pyx"""
    global last_pops
    L = lib()
    handles = {1: binary_callback, 2: unary_callback, 3: finalizer_args}
    pending = []

    def scaffold_thunk(cb, x, y, results):
        try:
            return int(scaffold(handles[cb], x, y, ResultsVectorPtr(results)))
        except BaseException as e:  # `except -1`
            pending.append(e)
            return -1

    def finalizer_thunk(item, token_id, cache, args):
        try:
            return int(finalizer(CellItemPtr.wrap(item), token_id, CachePtr(cache), handles[args]) or 0)
        except BaseException as e:
            # cannot happen for a `noexcept` finalizer; keep it visible
            pending.append(e)
            return 0

    c_scaffold = _SCAFFOLD_T(scaffold_thunk)
    c_finalizer = _FINALIZER_T(finalizer_thunk)
    errbuf = ctypes.create_string_buffer(512)
    L.ds_pop_log_clear()
    cache_before = len(c_cache)
    # recursion of `cdef` functions (retrieve_tree walks the derivation) runs on the C stack in the real
    # extension and does not count against the interpreter's recursion limit; their transliterations do
    limit = sys.getrecursionlimit()
    sys.setrecursionlimit(limit + 8 * int(length) + 64)
    try:
        status = L.ds_parse_sentence(
            c_tag_scores, c_dep_scores, _to_unsigned(length, 'length'),
            c_possible_root_cat._ptr, 1, 2,
            ctypes.cast(c_finalizer, ctypes.c_void_p), ctypes.cast(c_scaffold, ctypes.c_void_p),
            3, c_cache._ptr, c_config._ptr,
            errbuf, 512)
    finally:
        sys.setrecursionlimit(limit)
    stats['parse_calls'] += 1
    last_pops = L.ds_pop_count()
    stats['pops'] += last_pops
    if trace_on[0]:
        rec = {'length': int(length), 'pops': int(last_pops), 'status': int(status),
               'cache_before': int(cache_before), 'cache_after': len(c_cache),
               'max_step': int(c_config.max_step), 'nbest': int(c_config.nbest),
               'raised': bool(pending) or status == -1}
        if poplog_on[0]:
            rec['poplog'] = take_pop_log()
        trace.append(('parse', rec))
    if status == -1:
        if pending:
            raise pending[0]
        raise RuntimeError(errbuf.value.decode('utf-8', 'replace'))
    if pending:
        raise pending[0]
    return int(status)


trace = []
trace_on = [False]
poplog_on = [False]


def start_trace(poplog=False):
    del trace[:]
    trace_on[0] = True
    poplog_on[0] = bool(poplog)
    pop_logging(bool(poplog))


def stop_trace():
    trace_on[0] = False
    poplog_on[0] = False
    pop_logging(False)
    out = list(trace)
    del trace[:]
    return out
