#!/venv/bin/python
"""depsim check driver.

  check.py <property> --tier quick|thorough     search (honours VERIF_SEED, VERIF_TIER)
  check.py <property> --replay <file>           re-execute a recorded run

exit 0: property held on everything explored (KNOWN-FINDING lines allowed)
exit 1: `VIOLATION property=<id> replay=<path>` printed
exit 2: `HARNESS-ERROR ...` the machinery itself failed
"""
import argparse
import json
import os
import subprocess
import sys
import time

HERE = os.path.dirname(os.path.abspath(__file__))
sys.path.insert(0, os.path.dirname(HERE))

from depsim import env  # noqa: E402

TIERS = {
    # property: tier -> (max runs, wall budget seconds for the search phase)
    'default': {'quick': (4000, 50), 'thorough': (400000, 900)},
}


def harness_error(msg):
    print(f'HARNESS-ERROR {msg}')
    sys.exit(2)


def selftest_digests(prop, seed, n, tier, options):
    out = {}
    from depsim import runner
    for index in range(n):
        spec, r1 = runner.run_one(prop, seed, index, tier, options)
        out[str(index)] = [r1['log_digest'], runner.digest(spec)]
    return out


def main():
    ap = argparse.ArgumentParser()
    ap.add_argument('property')
    ap.add_argument('--tier', default=os.environ.get('VERIF_TIER', 'quick'))
    ap.add_argument('--seed', type=int, default=int(os.environ.get('VERIF_SEED', '0')))
    ap.add_argument('--replay')
    ap.add_argument('--quiet', action='store_true')
    ap.add_argument('--runs', type=int)
    ap.add_argument('--wall', type=float)
    ap.add_argument('--jobs', type=int, default=int(os.environ.get('DEPSIM_JOBS', '0')) or (os.cpu_count() or 4))
    ap.add_argument('--selftest-digests', type=int)
    ap.add_argument('--no-selftest', action='store_true')
    ap.add_argument('--digests-only', action='store_true',
                    help='run --runs runs through the parallel search driver and print {index: event-log digest}')
    ap.add_argument('--no-shrink', action='store_true')
    ap.add_argument('--first', action='store_true', help='stop the search at the first violation that is not a known finding')
    args = ap.parse_args()
    if args.tier not in ('quick', 'thorough'):
        args.tier = 'quick'

    env.ensure_hashseed()
    t_start = time.time()
    try:
        env.bootstrap()
        from depsim import props, runner
        prop = props.get(args.property)
    except env.HarnessError as e:
        harness_error(str(e))
    except Exception as e:  # noqa
        import traceback
        traceback.print_exc()
        harness_error(f'bootstrap failed: {type(e).__name__}: {e}')

    options = dict(getattr(prop, 'options', {}))
    # warm the read-only caches in the parent: every run executes in a forked child that inherits them
    from depsim import gen, grammars
    for variant in ('en', 'en_rebank', 'ja'):
        gen.seen_index(variant)
        grammars.seen_rule_set(variant)
        grammars.unary_table(variant)
        grammars.shipped('targets', variant)
    # the printers and readers are imported once here, so that the per-run children neither compile them
    # again nor meet a fault (F10) in the middle of an import
    import warnings
    with warnings.catch_warnings():
        warnings.simplefilter('ignore', SyntaxWarning)
        import depccg.printer          # noqa
        import depccg.tools.reader     # noqa
        import depccg.tools.ja.reader  # noqa
    if hasattr(prop, 'prepare'):
        prop.prepare()

    # ---------------------------------------------------------------- replay
    if args.replay:
        with open(args.replay) as f:
            doc = json.load(f)
        spec = doc['spec']
        try:
            # executed in a forked child so that a crash of the code under test is reported, not suffered
            res = runner.execute_spec(prop, spec)
        except Exception as e:  # noqa
            import traceback
            traceback.print_exc()
            harness_error(f'replay raised {type(e).__name__}: {e}')
        target = doc.get('violation')
        hits = [v for v in res['violations'] if target is None or runner.same_failure(v, target)]
        if hits:
            if not args.quiet:
                print(f'replay reproduces: {hits[0]["oracle"]}: {hits[0]["message"]}')
            print(f'VIOLATION property={args.property} replay={args.replay}')
            sys.exit(1)
        if res['violations']:
            print(f'replay fails differently: {res["violations"][0]["oracle"]}: {res["violations"][0]["message"]}')
            print(f'VIOLATION property={args.property} replay={args.replay}')
            sys.exit(1)
        print('replay: no violation')
        sys.exit(0)

    # ---------------------------------------------------------------- digests for the determinism self-test
    if args.selftest_digests:
        print('DIGESTS ' + json.dumps(selftest_digests(prop, args.seed, args.selftest_digests, args.tier, options),
                                      sort_keys=True))
        sys.exit(0)

    if args.digests_only:
        stats, violations, logs, errors = runner.run_search(
            args.property, args.seed, args.tier, args.runs or 32, args.jobs, options, wall_budget=None)
        if errors:
            harness_error(errors[0].splitlines()[0])
        print('DIGESTS ' + json.dumps({str(k): v for k, v in sorted(logs.items())}, sort_keys=True))
        sys.exit(0)

    tiers = getattr(prop, 'tiers', None) or TIERS['default']
    n_runs, wall = tiers[args.tier]
    if args.runs:
        n_runs = args.runs
    if args.wall:
        wall = args.wall

    # ---------------------------------------------------------------- determinism self-test (gates the check)
    selftest = {}
    if not args.no_selftest and getattr(prop, 'selftest', True):
        k = 6 if args.tier == 'quick' else 24
        try:
            a = selftest_digests(prop, args.seed, k, args.tier, options)
            b = selftest_digests(prop, args.seed, k, args.tier, options)
            if a != b:
                harness_error(f'determinism self-test: two executions in one process differ for seed {args.seed}')
            env_ = dict(os.environ)
            env_['DEPSIM_HARNESS_HASHSEED'] = '1'
            env_.pop('PYTHONHASHSEED', None)
            proc = subprocess.run(
                [sys.executable, os.path.abspath(__file__), args.property, '--tier', args.tier,
                 '--seed', str(args.seed), '--selftest-digests', str(k)],
                capture_output=True, text=True, env=env_, timeout=600)
            line = [l for l in proc.stdout.splitlines() if l.startswith('DIGESTS ')]
            if proc.returncode != 0 or not line:
                harness_error('determinism self-test: fresh interpreter failed: ' + (proc.stderr or proc.stdout)[-800:])
            c = json.loads(line[0][8:])
            diff = [i for i in a if a[i] != c.get(i)]
            if diff:
                route = getattr(prop, 'on_hashseed_divergence', None)
                if route is None:
                    harness_error(f'determinism self-test: fresh interpreter under another hash seed '
                                  f'differs for run indices {diff[:5]} of seed {args.seed}')
                selftest['hashseed_divergence'] = diff
            selftest.update({'seeds_checked': k, 'same_process_twice': 'equal',
                             'fresh_interpreter_other_harness_hashseed': 'equal' if not diff else 'differs'})
        except subprocess.TimeoutExpired:
            harness_error('determinism self-test timed out')

    # ---------------------------------------------------------------- search
    if args.first:
        options['max_violations'] = 1
    t0 = time.time()
    try:
        stats, violations, logs, errors = runner.run_search(
            args.property, args.seed, args.tier, n_runs, args.jobs, options, wall_budget=wall)
    except env.HarnessError as e:
        harness_error(str(e))
    search_wall = time.time() - t0
    if errors:
        # a dead worker may be a real crash of the code under test: find the run
        print('\n'.join(errors)[:3000], file=sys.stderr)
        harness_error(errors[0].splitlines()[0])
    if stats['counters'].get('runs', 0) == 0:
        harness_error('no run completed')

    findings = runner.load_known_findings()
    unconfirmed = []
    exit_code = 0
    reported = set()
    attempts = {}
    known_printed = set()
    new_violations = 0
    for item in violations:
        v = item['violation']
        key = (v['oracle'], json.dumps(v.get('signature'), sort_keys=True))
        if key in reported or attempts.get(key, 0) >= 4:
            continue
        known = runner.match_known(v, findings)
        if known is not None:
            reported.add(key)
            if known['id'] not in known_printed:
                known_printed.add(known['id'])
                print(f'KNOWN-FINDING: property={args.property} {known["what"]}')
            continue
        new_violations += 1
        spec = item['spec']
        # isolation artefact? re-execute pooled runs with really forked workers
        if hasattr(prop, 'confirm'):
            ok, why = prop.confirm(spec, v)
            if not ok:
                # in-process simulated workers share module / static state, real workers do not: an observation
                # that vanishes with really forked workers is an artefact of the harness, not a violation.  Another
                # run with the same kind of observation (e.g. one without pooled calls) still gets its own chance
                attempts[key] = attempts.get(key, 0) + 1
                unconfirmed.append(f'violation does not reproduce under real process isolation ({why}): '
                                   f'{v["oracle"]}: {v["message"]}')
                new_violations -= 1
                continue
        reported.add(key)
        if not args.no_shrink:
            spec, steps = runner.shrink(args.property, spec, v, budget_s=45 if args.tier == 'quick' else 180)
            res = runner.execute_spec(prop, spec)
            same = [x for x in res['violations'] if runner.same_failure(x, v)]
            if same:
                v = same[0]
        path = runner.write_replay(args.property, args.seed, item['index'], spec, v)
        rc, out = runner.replay_in_fresh_interpreter(args.property, path)
        if rc != 1:
            harness_error(f'violation found in run {item["index"]} does not replay in a fresh interpreter '
                          f'(rc={rc}): {v["oracle"]}: {v["message"]}\n{out[-600:]}')
        print(f'violated oracle {v["oracle"]}: {v["message"]}')
        print(f'VIOLATION property={args.property} replay={path}')
        exit_code = 1
        if new_violations >= 5:
            break

    if unconfirmed and exit_code == 0:
        harness_error(unconfirmed[0])
    extra = {'selftest': selftest, 'components': COMPONENTS, 'search_wall_s': round(search_wall, 2),
             'jobs': args.jobs, 'known_findings_seen': sorted(known_printed)}
    if hasattr(prop, 'evidence_extra'):
        prop._tier = args.tier
        extra.update(prop.evidence_extra(stats))
        rp = extra.get('real_pool_cross_check')
        if rp and (rp.get('error') or rp.get('equal') != rp.get('calls')) and exit_code == 0:
            harness_error(f'SimPool and the real multiprocessing.Pool disagree (model validation): {rp}')
    warn = [k for k in getattr(prop, 'expected_probes', []) if stats['counters'].get(k, 0) == 0]
    if warn:
        extra['probes_stuck_at_zero'] = warn
        if args.tier == 'thorough':
            print('WARNING probes stuck at zero: ' + ', '.join(warn), file=sys.stderr)
    runner.write_evidence(
        args.property, args.tier, args.seed, prop.level, stats, time.time() - t_start,
        new_violations, prop.rule, extra=extra, assumptions=ASSUMPTIONS + list(getattr(prop, 'assumptions', [])))
    c = stats['counters']
    if not args.quiet:
        print(f'{args.property} {args.tier}: runs={c.get("runs", 0)} evaluations={c.get("evaluations", 0)} '
              f'nontrivial={len(stats["sets"].get("nontrivial", ()))} wall={time.time() - t_start:.1f}s '
              f'violations={new_violations} known={len(known_printed)}')
    sys.exit(exit_code)


COMPONENTS = {
    'depccg/parsing.py': 'real (seams Pool/time replaced by attribute assignment)',
    'depccg/parsing.h': ('real C++ compiled from the working tree behind a C-ABI shim (pop hook H1 on), in two builds: release = the '
                         'flags setup.py gets from the interpreter (-DNDEBUG -O3), assert = -UNDEBUG -D_GLIBCXX_ASSERTIONS; every run draws one'),
    'depccg/parsing.pyx': 'real text executed by mechanical transliteration to Python (no Cython in the sandbox)',
    'multiprocessing.Pool': 'stub SimPool (pickle transport real; schedule owned by the simulator)',
    'time': 'stub virtual clock',
    'grammars': 'real depccg.grammar.en/ja + shipped model files; synthetic rule tables',
    'printers/readers/Tree/Token/Category': 'real',
    'tqdm, chainer, allennlp, nltk, simplejson, yaml, janome, morpha': 'import stubs (never exercised)',
}
ASSUMPTIONS = [
    'parsing.pyx is executed through a line-by-line transliteration; Cython-only semantics outside the '
    'emulated subset (reference counting, buffer protocol details) are not exercised',
    'simulated workers run in-process on pickled copies; violations in pooled calls are re-confirmed with '
    'really forked workers before being reported',
    'sampled search: a clean batch is evidence, not proof',
]

if __name__ == '__main__':
    try:
        main()
    except env.HarnessError as e:
        harness_error(str(e))
