#!/venv/bin/python
"""Large-sample determinism self-test (run while building and before soaks; the
per-check self-test that gates every run is the small version of this).

For every claimed property and several VERIF_SEED values, N runs are executed
  (a) through the parallel driver with 16 workers,
  (b) again with 3 workers (other batching, other process reuse),
  (c) again in a fresh interpreter whose *harness* runs under PYTHONHASHSEED=1,
and the per-run event-log digests (op list + schedule decisions + fault firings +
responses + contexts) are diffed.  Writes /verif/selftest/determinism.json."""
import json
import os
import subprocess
import sys
import time

HERE = os.path.dirname(os.path.abspath(__file__))
VERIF = os.path.dirname(HERE)


def digests(prop, seed, runs, jobs, hashseed):
    env = dict(os.environ)
    env['DEPSIM_HARNESS_HASHSEED'] = str(hashseed)
    env.pop('PYTHONHASHSEED', None)
    p = subprocess.run([sys.executable, os.path.join(HERE, 'check.py'), prop, '--seed', str(seed),
                        '--digests-only', '--runs', str(runs), '--jobs', str(jobs)],
                       capture_output=True, text=True, env=env, timeout=3600)
    line = [l for l in p.stdout.splitlines() if l.startswith('DIGESTS ')]
    if p.returncode != 0 or not line:
        raise RuntimeError(f'{prop} seed {seed}: {p.stdout[-500:]} {p.stderr[-500:]}')
    return json.loads(line[0][8:])


def main():
    props = sys.argv[1].split(',') if len(sys.argv) > 1 else \
        ['C01', 'C02', 'C09', 'C10', 'C11', 'C12', 'C14', 'C16', 'C18', 'C19', 'C20']
    seeds = [int(x) for x in (sys.argv[2].split(',') if len(sys.argv) > 2 else '0,1,2'.split(','))]
    runs = int(sys.argv[3]) if len(sys.argv) > 3 else 48
    report = {'runs_per_seed': runs, 'seeds': seeds, 'results': {}, 'started': time.strftime('%Y-%m-%d %H:%M:%S')}
    bad = 0
    for prop in props:
        for seed in seeds:
            a = digests(prop, seed, runs, 16, 0)
            b = digests(prop, seed, runs, 3, 0)
            c = digests(prop, seed, runs, 16, 1)
            diff_b = [k for k in a if a[k] != b.get(k)]
            diff_c = [k for k in a if a[k] != c.get(k)]
            report['results'][f'{prop}/{seed}'] = {
                'runs': len(a), 'differs_3_workers': diff_b, 'differs_harness_hashseed_1': diff_c}
            bad += len(diff_b) + len(diff_c)
            print(prop, seed, len(a), 'runs; differing:', diff_b, diff_c, flush=True)
    report['total_differences'] = bad
    os.makedirs(os.path.join(VERIF, 'selftest'), exist_ok=True)
    with open(os.path.join(VERIF, 'selftest', 'determinism.json'), 'w') as f:
        json.dump(report, f, indent=1, sort_keys=True)
    sys.exit(1 if bad else 0)


if __name__ == '__main__':
    main()
