"""Process bootstrap: fixed string-hash seed for the harness, import stubs,
shim build, injection of the transliterated `depccg._parsing`."""
import os
import sys

HERE = os.path.dirname(os.path.abspath(__file__))
VERIF = os.path.dirname(HERE)


class HarnessError(Exception):
    """the machinery failed (never a pass, never a VIOLATION)"""


def repo_root():
    return os.environ.get('DEPSIM_REPO', '/repo')


def ensure_hashseed(default='0'):
    """re-exec the interpreter so that set/dict order inside the harness is a
    function of the code only.  DEPSIM_HARNESS_HASHSEED overrides (self-test)."""
    want = os.environ.get('DEPSIM_HARNESS_HASHSEED', default)
    if os.environ.get('PYTHONHASHSEED') != want:
        env = dict(os.environ)
        env['PYTHONHASHSEED'] = want
        os.execve(sys.executable, [sys.executable] + sys.argv, env)


_state = {'done': False, 'parsing_module': None}


def bootstrap(load_parser=True):
    if _state['done']:
        return _state['parsing_module']
    os.environ.setdefault('DEPCCG_VERIF', '1')
    for p in (VERIF, repo_root()):
        if p not in sys.path:
            sys.path.insert(0, p)
    # the repository must come first so that `depccg` is the working tree
    if sys.path[0] != repo_root():
        sys.path.remove(repo_root())
        sys.path.insert(0, repo_root())
    from depsim import stubs
    stubs.install()
    mod = None
    if load_parser:
        from depsim import translit, cemu
        cemu.load_all()
        pyx = os.path.join(repo_root(), 'depccg', 'parsing.pyx')
        with open(pyx, encoding='utf-8') as f:
            source = f.read()
        try:
            mod = translit.load_module(source, filename=pyx + ' (transliterated)')
        except translit.TranslitError as e:
            raise HarnessError(f'parsing.pyx uses a construct the transliteration does not support: {e}')
        sys.modules['depccg._parsing'] = mod
        import depccg
        depccg._parsing = mod
        if not os.path.realpath(depccg.__file__).startswith(os.path.realpath(repo_root())):
            raise HarnessError(f'depccg imported from {depccg.__file__}, not from {repo_root()}')
        import depccg.parsing  # noqa
    _state['done'] = True
    _state['parsing_module'] = mod
    return mod
