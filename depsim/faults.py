"""fault F10: pre-empt a call into the repository at an arbitrary instant.

`run_interrupted(fn, after)` runs fn() and delivers KeyboardInterrupt at the `after`-th line event
executed inside the repository's own Python code (what Ctrl-C or a signal-driven timeout does);
line events are counted by a trace function, so the instant is a pure function of the code, its
input and `after` -- it replays exactly."""
import sys

from depsim import env


def run_interrupted(fn, after):
    """returns (True, None) if the interrupt was delivered, else (False, fn's result)"""
    root = env.repo_root().rstrip('/') + '/depccg/'
    count = [0]

    def local(frame, event, arg):
        if event == 'line':
            count[0] += 1
            if count[0] == after:
                raise KeyboardInterrupt()
        return local

    def glob(frame, event, arg):
        if event == 'call' and count[0] < after and frame.f_code.co_filename.startswith(root):
            return local
        return None

    old = sys.gettrace()
    sys.settrace(glob)
    try:
        return False, fn()
    except KeyboardInterrupt:
        return True, None
    finally:
        sys.settrace(old)


def run_with_stack_budget(fn, extra):
    """fault F11: fn() runs with the interpreter's recursion limit `extra` frames above the current depth, so the
    limit is hit at a point that is a pure function of the code, its input and `extra`.
    returns (True, None) if RecursionError (or an exception that carries it) came out, else (False, fn's result)"""
    depth = 0
    fr = sys._getframe()
    while fr is not None:
        depth += 1
        fr = fr.f_back
    limit0 = sys.getrecursionlimit()
    sys.setrecursionlimit(depth + max(6, extra))
    try:
        value = fn()
    except RecursionError:
        sys.setrecursionlimit(limit0)
        return True, None
    finally:
        sys.setrecursionlimit(limit0)
    return False, value
