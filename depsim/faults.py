"""fault F10: pre-empt a call into the repository at an arbitrary instant.

`run_interrupted(fn, after)` runs fn() and delivers KeyboardInterrupt at the `after`-th line event
executed inside the repository's own Python code (what Ctrl-C or a signal-driven timeout does);
line events are counted by a trace function, so the instant is a pure function of the code, its
input and `after` -- it replays exactly."""
import sys

from depsim import env


def run_interrupted(fn, after):
    """returns (True, None) if the interrupt was delivered, else (False, fn's result)"""
    root = env.repo_root().rstrip('/') + '/depccg/'
    count = [0]

    def local(frame, event, arg):
        if event == 'line':
            count[0] += 1
            if count[0] == after:
                raise KeyboardInterrupt()
        return local

    def glob(frame, event, arg):
        if event == 'call' and count[0] < after and frame.f_code.co_filename.startswith(root):
            return local
        return None

    old = sys.gettrace()
    sys.settrace(glob)
    try:
        return False, fn()
    except KeyboardInterrupt:
        return True, None
    finally:
        sys.settrace(old)
