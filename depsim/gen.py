"""Seeded generation of worlds: grammar spec + sentence pool.  Everything is
drawn from streams derived from (VERIF_SEED, stream name, run index); the
result is plain JSON-able data, so executing a world never needs the PRNG."""
import hashlib
import math
import random

import numpy

from depsim import grammars

EN_ROOTS = ['S[dcl]', 'S[wq]', 'S[q]', 'S[qem]', 'NP']
JA_ROOTS = [
    'NP[case=nc,mod=nm,fin=f]', 'NP[case=nc,mod=nm,fin=t]', 'S[mod=nm,form=attr,fin=t]',
    'S[mod=nm,form=base,fin=f]', 'S[mod=nm,form=base,fin=t]', 'S[mod=nm,form=cont,fin=f]',
    'S[mod=nm,form=cont,fin=t]', 'S[mod=nm,form=da,fin=f]', 'S[mod=nm,form=da,fin=t]',
    'S[mod=nm,form=hyp,fin=t]', 'S[mod=nm,form=imp,fin=f]', 'S[mod=nm,form=imp,fin=t]',
    'S[mod=nm,form=r,fin=t]', 'S[mod=nm,form=s,fin=t]', 'S[mod=nm,form=stem,fin=f]',
    'S[mod=nm,form=stem,fin=t]']


def stream(seed, name, index=0):
    """independent PRNG stream; str seeding goes through sha512, so it does not
    depend on PYTHONHASHSEED"""
    return random.Random(f'depsim|{seed}|{name}|{index}')


def np_stream(rng):
    return numpy.random.RandomState(rng.getrandbits(32))


def arr_to_hex(a):
    a = numpy.ascontiguousarray(a, dtype=numpy.float32)
    return {'shape': list(a.shape), 'hex': a.tobytes().hex()}


def hex_to_arr(d):
    if 'entries' in d:
        # sparse form for very wide score matrices: one fill value and a few (row, column, value) entries
        a = numpy.full(d['shape'], d['fill'], dtype=numpy.float32)
        for i, j, v in d['entries']:
            a[i, j] = v
        return a
    return numpy.frombuffer(bytes.fromhex(d['hex']), dtype=numpy.float32).reshape(d['shape']).copy()


def arr_key(d):
    """a short identifying string of an encoded array (for digests)"""
    return d['hex'] if 'hex' in d else repr((d['shape'], d['fill'], d['entries']))


def digest(obj):
    import json
    return hashlib.sha256(json.dumps(obj, sort_keys=True, default=str).encode()).hexdigest()[:16]


# ------------------------------------------------------------------ synthetic grammars

def synth_grammar(rng, heads='left', n_tags=None, multi=True, unary=True):
    atoms = ['A', 'B', 'C', 'D', 'E', 'F'][:rng.randint(2, 5)]
    pool = list(atoms)
    for _ in range(rng.randint(1, 5)):
        a, b = rng.choice(atoms), rng.choice(atoms)
        pool.append(f'{a}{rng.choice("/" + chr(92))}{b}')
    pool = list(dict.fromkeys(pool))
    n_tags = n_tags or rng.randint(1, min(8, len(pool)))
    rng.shuffle(pool)
    tags = pool[:n_tags]
    derived = pool[n_tags:] + [f'X{i}' for i in range(rng.randint(0, 3))]
    allc = tags + derived
    density = rng.choice([0.25, 0.4, 0.6, 0.9])
    table = {}
    label_no = [0]

    def head_flag():
        if heads == 'left':
            return True
        if heads == 'right':
            return False
        return rng.random() < 0.5

    for x in allc:
        for y in allc:
            if rng.random() < density:
                k = 1
                if multi and rng.random() < 0.35:
                    k = rng.randint(2, 3)
                results = []
                used = set()
                for _ in range(k):
                    c = rng.choice(allc)
                    label_no[0] += 1
                    lab = f'r{label_no[0] % 7}'
                    if (c, lab) in used:
                        continue
                    used.add((c, lab))
                    results.append([c, lab, f'<{lab}>', head_flag()])
                table[f'{x} || {y}'] = results
    utable = {}
    if unary:
        rank = {c: i for i, c in enumerate(allc)}
        for x in allc:
            if rng.random() < 0.3:
                higher = [c for c in allc if rank[c] > rank[x]]
                if not higher:
                    continue
                k = 1 if rng.random() < 0.7 else 2
                outs = []
                for c in rng.sample(higher, min(k, len(higher))):
                    lab = f'u{rank[c] % 4}'
                    outs.append([c, lab, f'<{lab}>'])
                utable[x] = outs
    n_roots = rng.randint(1, 3)
    roots = rng.sample(allc, min(n_roots, len(allc)))
    return {
        'kind': 'synth', 'heads': heads, 'binary': table, 'unary': utable,
        'categories': tags, 'roots': roots, 'lang': 'en',
    }


# ------------------------------------------------------------------ real grammars

_seen_index = {}


def seen_index(variant):
    """pairs of canonical category strings of the shipped seen rules, with
    left/right indexes"""
    if variant in _seen_index:
        return _seen_index[variant]
    from depccg.cat import Category
    pairs = []
    canon = {}

    def c(s):
        if s not in canon:
            canon[s] = str(Category.parse(s))
        return canon[s]
    for x, y in grammars.shipped('seen_rules', variant):
        pairs.append((c(x), c(y)))
    by_left, by_right = {}, {}
    for x, y in pairs:
        by_left.setdefault(x, []).append(y)
        by_right.setdefault(y, []).append(x)
    _seen_index[variant] = (pairs, by_left, by_right)
    return _seen_index[variant]


def real_lexicon(rng, variant, want_pair=None, max_tags=8):
    """walk the shipped seen-rule graph to get a small tag inventory in which
    derivations exist (DESIGN 3.11)"""
    from depccg.cat import Category
    lang = 'ja' if variant == 'ja' else 'en'
    pairs, by_left, by_right = seen_index(variant)
    binary, _ = grammars.real_grammar(lang)
    utab = grammars.shipped('unary_rules', variant)
    x, y = want_pair if want_pair else rng.choice(pairs)
    inv = list(dict.fromkeys([x, y]))
    frontier = [str(r.cat) for r in binary(Category.parse(x), Category.parse(y))]
    for _ in range(rng.randint(1, 4)):
        if not frontier or len(inv) >= max_tags:
            break
        r = rng.choice(frontier)
        options = []
        for yy in by_left.get(r, [])[:50]:
            options.append((r, yy, yy))
        for xx in by_right.get(r, [])[:50]:
            options.append((xx, r, xx))
        if not options:
            continue
        a, b, partner = rng.choice(options)
        if partner not in inv:
            inv.append(partner)
        frontier.extend(str(q.cat) for q in binary(Category.parse(a), Category.parse(b)))
    if rng.random() < 0.6 and len(inv) < max_tags:
        k, v = rng.choice(utab)
        ks = str(Category.parse(k))
        if ks not in inv:
            inv.append(ks)
        vs = str(Category.parse(v))
        partners = by_left.get(vs, [])[:20] + by_right.get(vs, [])[:20]
        if partners and len(inv) < max_tags and rng.random() < 0.7:
            p = rng.choice(partners)
            if p not in inv:
                inv.append(p)
    targets = grammars.shipped('targets', variant)
    for _ in range(rng.randint(0, 2)):
        if len(inv) >= max_tags:
            break
        t = str(Category.parse(rng.choice(targets)))
        if t not in inv:
            inv.append(t)
    if lang == 'en' and rng.random() < 0.3:
        # feature twins: next to a category that carries the variable feature [X] (lexical, or the target of a shipped
        # unary rule for a category of the inventory, e.g. the type-raised S[X]/(S[X]\NP)) its X-less twin as a lexical
        # category, as gold CCGbank lexicons have it (S/(S\NP)).  The two combine with the same partners into
        # different results, which anything keyed by a feature-blind view of a category pair confuses.
        cands = [c for c in inv if '[X]' in c]
        for k, v in utab:
            if str(Category.parse(k)) in inv and '[X]' in v:
                cands.append(str(Category.parse(v)))
        if cands:
            twin = str(Category.parse(rng.choice(sorted(set(cands)))).clear_features('X'))
            if twin not in inv:
                inv.append(twin)
    rng.shuffle(inv)
    # `run` requires pairwise different categories: drop texts that denote the same value
    seen_values, out = set(), []
    for c in inv:
        v = Category.parse(c)
        if v not in seen_values:
            seen_values.add(v)
            out.append(c)
    return out


def real_grammar_spec(rng, variant, want_pair=None, seen=None, roots_mode=None):
    lang = 'ja' if variant == 'ja' else 'en'
    inv = real_lexicon(rng, variant, want_pair)
    seen = seen if seen is not None else rng.choice([None, 'shipped'])
    return {
        'kind': 'real', 'lang': lang, 'variant': variant, 'seen': seen, 'unary': 'shipped',
        'categories': inv, 'roots': list(JA_ROOTS if lang == 'ja' else EN_ROOTS),
        'roots_mode': roots_mode or rng.choice(['cli', 'derivable', 'derivable', 'derivable', 'derivable']),
        # three worlds in four hand depccg a memoising wrapper of the real rule function (a user may), one in
        # four the bare functools.partial exactly as the CLI builds it
        'memo': rng.random() < 0.75,
    }


# ------------------------------------------------------------------ sentences

def value_chart_roots(tags_seq, categories, memo, max_items=400):
    """categories derivable over the full span for a fixed tag sequence (values only)"""
    n = len(tags_seq)
    chart = {}

    def close(cell):
        frontier = list(cell)
        depth = 0
        while frontier and depth < 6:
            depth += 1
            nxt = []
            for c in frontier:
                for r in memo.unary(c):
                    if r.cat not in cell:
                        cell.add(r.cat)
                        nxt.append(r.cat)
            frontier = nxt
    for i, t in enumerate(tags_seq):
        cell = {categories[t]}
        close(cell)
        chart[(i, i + 1)] = cell
    for length in range(2, n + 1):
        for i in range(n - length + 1):
            j = i + length
            cell = set()
            for k in range(i + 1, j):
                for lc in chart[(i, k)]:
                    for rc in chart[(k, j)]:
                        for r in memo.binary(lc, rc):
                            cell.add(r.cat)
                            if len(cell) > max_items:
                                break
            if length != n:
                close(cell)
            chart[(i, j)] = cell
    return chart[(0, n)]


def derivable_pool(rng, categories, memo, max_len, attempts=40):
    """tag sequences that have a derivation by construction: spans are grown by
    combining two shorter derivable spans whose categories the grammar combines.
    returns {length: [(tag index tuple, str(category)), ...]}"""
    pool = {1: []}
    by_len_cat = {}
    unary_topped = set()

    def add(length, seq, cat, depth=0):
        key = (seq, cat)
        if key in by_len_cat:
            return
        by_len_cat[key] = True
        pool.setdefault(length, []).append((seq, cat))
        if depth < 2 and len(pool[length]) < 60:
            for r in memo.unary(cat):
                add(length, seq, r.cat, depth + 1)
    for t, c in enumerate(categories):
        add(1, (t,), c)
    for length in range(2, max_len + 1):
        pool.setdefault(length, [])
        for _ in range(attempts):
            k = rng.randint(1, length - 1)
            if not pool.get(k) or not pool.get(length - k):
                continue
            s1, c1 = rng.choice(pool[k])
            s2, c2 = rng.choice(pool[length - k])
            res = memo.binary(c1, c2)
            if res:
                r = rng.choice(res)
                # no unary on top of the full span of a multi-word sentence: keep the binary result itself
                key = (s1 + s2, r.cat)
                if key not in by_len_cat:
                    by_len_cat[key] = True
                    pool[length].append(key)
                    if len(pool[length]) < 60:
                        for u in memo.unary(r.cat):
                            add(length, s1 + s2, u.cat, 1)
                            unary_topped.add((s1 + s2, u.cat))
    pool['unary_topped'] = unary_topped
    return pool


def make_scores(nprng, rng, n, T, style, favoured=None):
    """log-probability matrices (float32): tag (n,T), dep (n,n+1)"""
    spread = rng.choice([0.5, 1.5, 3.0])
    logits = nprng.normal(0.0, spread, size=(n, T))
    if favoured is not None:
        for i, t in enumerate(favoured):
            logits[i, t] += rng.choice([1.0, 3.0, 5.0])
    dlogits = nprng.normal(0.0, rng.choice([0.5, 1.5, 3.0]), size=(n, n + 1))
    if style == 'quantised':
        logits = numpy.round(logits * 2) / 2
        dlogits = numpy.round(dlogits * 2) / 2
    elif style == 'dominant':
        for i in range(n):
            logits[i, nprng.randint(T)] += 8.0

    def log_softmax(a):
        a = a - a.max(axis=1, keepdims=True)
        return a - numpy.log(numpy.exp(a).sum(axis=1, keepdims=True))
    tag = log_softmax(logits).astype(numpy.float32)
    dep = log_softmax(dlogits).astype(numpy.float32)
    if style == 'quantised':
        # keep exact ties: quantise the log-probabilities themselves
        tag = (numpy.round(tag * 2) / 2).astype(numpy.float32)
        dep = (numpy.round(dep * 2) / 2).astype(numpy.float32)
        tag = numpy.minimum(tag, 0.0).astype(numpy.float32)
        dep = numpy.minimum(dep, 0.0).astype(numpy.float32)
    return tag, dep


def make_world(seed, index, family=None, n_sentences=None, max_len=6, rich_tokens=False,
               score_styles=('continuous', 'continuous', 'quantised', 'dominant'),
               want_pair=None, variant=None, heads=None):
    """grammar spec + sentence pool"""
    from depccg.cat import Category
    from depsim.refparser import GrammarMemo
    rng = stream(seed, 'world', index)
    nprng = np_stream(rng)
    family = family or rng.choice(['synth-left', 'synth-right', 'en', 'en-seen', 'ja', 'ja-seen'])
    if family.startswith('synth'):
        h = heads or family.split('-')[1]
        spec = synth_grammar(rng, heads=h)
    else:
        lang = family.split('-')[0]
        variant = variant or (rng.choice(['en', 'en', 'en_rebank']) if lang == 'en' else 'ja')
        spec = real_grammar_spec(rng, variant, want_pair=want_pair,
                                 seen='shipped' if family.endswith('-seen') else None)
    g = grammars.build_from_spec(spec)
    memo = GrammarMemo(g['binary'], g['unary'])
    cats = g['categories']
    T = len(cats)
    n_sentences = n_sentences or rng.randint(3, 8)
    sentences = []
    derivable = []
    dense = False
    if spec['kind'] == 'real':
        # tags such as conj or punctuation combine with everything (Y -> Y\Y, absorption): the chart gets dense,
        # every pop asks the (slow, Python) rule functions about dozens of new pairs.  Such worlds get short sentences.
        hits = sum(1 for a in cats for b in cats if memo.binary(a, b))
        dense = hits > 0.35 * T * T
        if dense:
            max_len = min(max_len, 5)
    pool = derivable_pool(rng, cats, memo, max_len)
    root_set = set(g['roots'])
    for sid in range(n_sentences):
        n = rng.randint(1, max_len)
        favoured = None
        # a tag sequence with a derivation (by construction) for a good share of sentences
        if rng.random() < 0.85:
            cands = [c for c in (pool.get(n) or []) if n == 1 or c not in pool['unary_topped']]
            rooted = [c for c in cands if c[1] in root_set]
            if rooted and rng.random() < 0.6:
                cands = rooted
            if cands:
                seq, cat = rng.choice(cands)
                favoured = list(seq)
                derivable.append(str(cat))
        style = rng.choice(score_styles)
        tag, dep = make_scores(nprng, rng, n, T, style, favoured)
        words = [f'w{sid}x{i}' for i in range(n)]
        sentences.append({
            'words': words, 'tag': arr_to_hex(tag), 'dep': arr_to_hex(dep), 'style': style,
            'rich': bool(rich_tokens), 'favoured': favoured,
        })
    if spec['kind'] == 'real' and spec.get('roots_mode') == 'derivable' and derivable:
        extra = list(dict.fromkeys(derivable))
        rng.shuffle(extra)
        spec['roots'] = list(dict.fromkeys(spec['roots'] + extra[:rng.randint(2, 6)]))
    elif spec['kind'] == 'synth' and derivable and rng.random() < 0.7:
        extra = list(dict.fromkeys(derivable))
        rng.shuffle(extra)
        spec['roots'] = list(dict.fromkeys(spec['roots'] + extra[:rng.randint(1, 2)]))
    return {'family': family, 'grammar': spec, 'sentences': sentences, 'dense_lexicon': dense}
