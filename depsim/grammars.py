"""Grammars used by the simulated sessions: the repository's real en/ja rule
functions (with the shipped seen-rule / unary tables read from the model files)
and synthetic rule tables (picklable callables, so they cross the simulated
worker boundary exactly as user grammars cross the real one)."""
import json
import os
import re
from functools import partial

from depsim.env import repo_root

_model_cache = {}


def read_model_file(name):
    """20-line reader for the jsonnet subset the model files use"""
    if name in _model_cache:
        return _model_cache[name]
    path = os.path.join(repo_root(), 'depccg', 'models', name)
    with open(path, encoding='utf-8') as f:
        text = f.read()

    def requote(m):
        body = m.group(1)
        body = body.replace("\\'", "'").replace('"', '\\"')
        return '"' + body + '"'
    text = re.sub(r"'((?:[^'\\]|\\.)*)'", requote, text)
    text = re.sub(r'(?m)^(\s*)([A-Za-z_]\w*)\s*:', r'\1"\2":', text)
    text = re.sub(r',(\s*[\]}])', r'\1', text)
    data = json.loads(text)
    _model_cache[name] = data
    return data


def shipped(kind, variant):
    """kind in targets|seen_rules|unary_rules|cat_dict; variant in en|en_rebank|ja"""
    if kind == 'unary_rules' and variant == 'en_rebank':
        variant = 'en'
    return read_model_file(f'{kind}.{variant}.jsonnet')[kind]


# ------------------------------------------------------------------ real grammars

def real_grammar(lang, seen_rules=None, unary_table=None):
    """returns (binary_fun, unary_fun) built the way depccg.allennlp.utils.read_params does"""
    from depccg.grammar import en, ja
    mod = {'en': en, 'ja': ja}[lang]
    binary = partial(mod.apply_binary_rules, seen_rules=seen_rules)
    unary = partial(mod.apply_unary_rules, unary_rules=unary_table if unary_table is not None else {})
    return binary, unary


_seen_sets = {}


def seen_rule_set(variant):
    if variant not in _seen_sets:
        _seen_sets[variant] = _seen_rule_set(variant)
    return _seen_sets[variant]


def _seen_rule_set(variant):
    from depccg.cat import Category
    return {
        (Category.parse(x).clear_features('X', 'nb'), Category.parse(y).clear_features('X', 'nb'))
        for x, y in shipped('seen_rules', variant)
    }


def unary_table(variant):
    from depccg.cat import Category
    table = {}
    for k, v in shipped('unary_rules', variant):
        table.setdefault(Category.parse(k), []).append(Category.parse(v))
    return table


# ------------------------------------------------------------------ synthetic grammars

class SynthBinary(object):
    """table: {(x_str, y_str): [(cat_str, op_string, op_symbol, head_is_left), ...]}"""

    def __init__(self, table):
        self.table = table
        self._parsed = None

    def _build(self):
        from depccg.cat import Category
        from depccg.types import CombinatorResult
        self._parsed = {
            key: [CombinatorResult(Category.parse(c), s, y, h) for c, s, y, h in vals]
            for key, vals in self.table.items()
        }

    def __getstate__(self):
        return {'table': self.table}

    def __setstate__(self, state):
        self.table = state['table']
        self._parsed = None

    def __call__(self, x, y):
        if self._parsed is None:
            self._build()
        return list(self._parsed.get((str(x), str(y)), ()))


class SynthUnary(object):
    """table: {x_str: [(cat_str, op_string, op_symbol), ...]}; head_is_left is irrelevant for unary"""

    def __init__(self, table):
        self.table = table
        self._parsed = None

    def _build(self):
        from depccg.cat import Category
        from depccg.types import CombinatorResult
        self._parsed = {
            key: [CombinatorResult(Category.parse(c), s, y, True) for c, s, y in vals]
            for key, vals in self.table.items()
        }

    def __getstate__(self):
        return {'table': self.table}

    def __setstate__(self, state):
        self.table = state['table']
        self._parsed = None

    def __call__(self, x):
        if self._parsed is None:
            self._build()
        return list(self._parsed.get(str(x), ()))


class ExplosiveBinary(object):
    """stress grammar: every category pair combines into one of M hashed categories, so the category
    table and the rule cache grow to hundreds of thousands of entries within one sentence (tuning
    constants / capacity limits that ordinary workloads never reach)"""

    def __init__(self, modulus, salt, fanout=1):
        self.modulus = modulus
        self.salt = salt
        self.fanout = fanout

    def __call__(self, x, y):
        import hashlib
        from depccg.cat import Atom
        from depccg.types import CombinatorResult
        digest = hashlib.md5(f'{self.salt}|{x}|{y}'.encode()).hexdigest()
        out, seen = [], set()
        for k in range(self.fanout):
            h = int(digest[8 * k:8 * k + 8], 16) % self.modulus
            if h not in seen:
                seen.add(h)
                out.append(CombinatorResult(Atom(f'H{h}'), f'e{k}', f'<e{k}>', True))
        return out


class NoUnary(object):
    def __call__(self, x):
        return []


class MemoCallable(object):
    """a caller-side memo around a (slow) grammar function: the grammar callables are an INPUT of
    depccg.parsing.run, and a user is free to pass a memoising one.  The memo is not pickled, so every
    simulated worker starts with an empty one."""

    def __init__(self, inner):
        self.inner = inner
        self._memo = {}

    def __getstate__(self):
        return {'inner': self.inner}

    def __setstate__(self, state):
        self.inner = state['inner']
        self._memo = {}

    def __call__(self, *args):
        r = self._memo.get(args)
        if r is None:
            r = self.inner(*args)
            self._memo[args] = r
        return list(r)


class _UnconvertibleStr(str):
    """a label that fails when the extension converts it to bytes"""

    def encode(self, *args, **kwargs):
        raise RuntimeError('injected grammar fault (a result that cannot be converted)')


class FaultyCallable(object):
    """F4: fails at its k-th invocation (counted per process copy, as a real pickled callable would).
    mode 'raise': the call raises.  mode 'malformed_tail': the k-th invocation that has results returns them
    followed by one more whose label cannot be converted, so the extension fails in the middle of taking the
    list over, after it has accepted the first results"""

    def __init__(self, inner, fail_at, message='injected grammar fault', mode='raise'):
        self.inner = inner
        self.fail_at = fail_at
        self.message = message
        self.mode = mode
        self.calls = 0
        self.fired = 0

    def __call__(self, *args):
        if self.mode == 'malformed_tail':
            res = self.inner(*args)
            if res:
                self.calls += 1
                if self.fail_at is not None and self.calls == self.fail_at:
                    self.fired += 1
                    return list(res) + [res[0]._replace(op_string=_UnconvertibleStr('bad'))]
            return res
        self.calls += 1
        if self.fail_at is not None and self.calls == self.fail_at:
            self.fired += 1
            raise RuntimeError(self.message)
        return self.inner(*args)


class CountingCallable(object):
    """counts invocations (used to show that rejected inputs never reach the grammar)"""

    def __init__(self, inner):
        self.inner = inner
        self.calls = 0

    def __call__(self, *args):
        self.calls += 1
        return self.inner(*args)


# ------------------------------------------------------------------ grammar spec <-> objects

def build_from_spec(spec):
    """spec (JSON-able) -> dict(binary, unary, categories, roots, lang, head_uniform)"""
    from depccg.cat import Category
    kind = spec['kind']
    if kind == 'synth':
        table = {tuple(k.split(' || ')): [tuple(v) for v in vals] for k, vals in spec['binary'].items()}
        utable = {k: [tuple(v) for v in vals] for k, vals in spec['unary'].items()}
        binary = SynthBinary(table)
        unary = SynthUnary(utable)
        heads = {v[3] for vals in table.values() for v in vals}
        head_uniform = len(heads) <= 1
        lang = spec.get('lang', 'en')
    elif kind == 'explosive':
        binary = ExplosiveBinary(spec['modulus'], spec['salt'], spec.get('fanout', 1))
        unary = NoUnary()
        head_uniform = True
        lang = 'en'
    elif kind == 'real':
        lang = spec['lang']
        variant = spec.get('variant', lang)
        seen = None
        if spec.get('seen') == 'shipped':
            seen = seen_rule_set(variant)
        elif isinstance(spec.get('seen'), list):
            seen = {(Category.parse(x).clear_features('X', 'nb'), Category.parse(y).clear_features('X', 'nb'))
                    for x, y in spec['seen']}
        if spec.get('unary') == 'shipped':
            ut = unary_table(variant)
        else:
            ut = {}
            for k, v in spec.get('unary') or []:
                ut.setdefault(Category.parse(k), []).append(Category.parse(v))
        binary, unary = real_grammar(lang, seen, ut)
        if spec.get('memo', True):
            binary = MemoCallable(binary)
        head_uniform = True
    else:
        raise ValueError(kind)
    return {
        'binary': binary,
        'unary': unary,
        'categories': [Category.parse(c) for c in spec['categories']],
        'roots': [Category.parse(c) for c in spec['roots']],
        'lang': lang,
        'head_uniform': head_uniform,
        'spec': spec,
    }
