#!/venv/bin/python
"""Automatic sensitivity sweep: single-line text mutants of the anchored sources,
each evaluated by the relevant checks (quick tier, short wall budget).  This is a
measuring instrument for the checks, not a check: it works on a scratch copy of
the repository (DEPSIM_REPO) and never touches /repo.

usage: mutation_sweep.py <scratch repo copy> <out.json> [max mutants per file] [wall s per check]
"""
import json
import os
import random
import re
import subprocess
import sys
import time

HERE = os.path.dirname(os.path.abspath(__file__))

# file -> (line range or None, checks that observe it, run pytest?)
TARGETS = {
    'depccg/parsing.h': ((267, 500), ['C01', 'C02', 'C09', 'C10', 'C11', 'C12', 'C16'], False),
    'depccg/parsing.py': ((12, 170), ['C11', 'C16', 'C02'], False),
    'depccg/parsing.pyx': ((73, 300), ['C02', 'C09', 'C11', 'C12'], False),
    'depccg/unification.py': ((39, 131), ['C14'], True),
    'depccg/grammar/__init__.py': ((31, 45), ['C12'], True),
    'depccg/tools/reader.py': ((268, 362), ['C20', 'C12'], False),
    'depccg/tools/ja/reader.py': ((10, 102), ['C20'], False),
    'depccg/printer/jigg_xml.py': ((80, 125), ['C18', 'C19', 'C12'], False),
    'depccg/printer/ptb.py': (None, ['C20', 'C19'], False),
    'depccg/printer/ja.py': (None, ['C20', 'C19'], False),
    'depccg/printer/prolog.py': ((60, 255), ['C19', 'C18'], False),
    'depccg/printer/conll.py': (None, ['C19', 'C18'], False),
    'depccg/printer/__init__.py': ((40, 150), ['C19', 'C18'], False),
}

OPERATORS = [
    (r' \+ ', ' - '), (r' - ', ' + '), (r' <= ', ' < '), (r' >= ', ' > '),
    (r'(?<![<>=!-]) < (?![<=])', ' <= '), (r'(?<![<>=!-]) > (?![>=])', ' >= '),
    (r' == ', ' != '), (r' != ', ' == '), (r' && ', ' || '), (r' \|\| ', ' && '),
    (r'\band\b', 'or'), (r'\bor\b', 'and'), (r'\bTrue\b', 'False'), (r'\bFalse\b', 'True'),
    (r'\btrue\b', 'false'), (r'\bfalse\b', 'true'), (r' \+ 1\b', ''), (r' - 1\b', ''),
    (r'\bnot ', ''), (r'\bbreak\b', 'continue'), (r'\bleft\b', 'right'), (r'\bright\b', 'left'),
    (r'\bhead\b', 'child'), (r'\bchild\b', 'head'), (r'\[0\]', '[1]'), (r'\[-1\]', '[0]'),
    (r'\bitem\b', 'other_PLACEHOLDER'), (r', 0\)', ', 1)'), (r'\bmin\(', 'max('), (r'\bmax\(', 'min('),
    (r'\.pop\(\)', '.pop(0)'), (r'\.append\(', '.insert(0, '), (r'\bready\(\)', 'successful()'),
    (r'start_of_span', 'span_length'), (r'\bfirst\b', 'second'), (r'\bin_score\b', 'out_score'),
]


def candidates(path, lines_range):
    with open(path, encoding='utf-8') as f:
        lines = f.read().split('\n')
    out = []
    lo, hi = lines_range if lines_range else (1, len(lines))
    for i in range(lo - 1, min(hi, len(lines))):
        line = lines[i]
        code = line.split('#')[0] if path.endswith('.py') or path.endswith('.pyx') else line.split('//')[0]
        if not code.strip() or code.strip().startswith(('"""', "'''", '*', 'import ', 'from ', '#include')):
            continue
        for pat, rep in OPERATORS:
            if rep == 'other_PLACEHOLDER':
                continue
            for m in re.finditer(pat, code):
                new = line[:m.start()] + m.expand(rep) + line[m.end():]
                if new != line:
                    out.append((i, line, new, f'{pat} -> {rep}'))
    return out


def run(cmd, env, timeout):
    try:
        p = subprocess.run(cmd, capture_output=True, text=True, env=env, timeout=timeout)
        return p.returncode, p.stdout + p.stderr
    except subprocess.TimeoutExpired:
        return 124, 'timeout'


def main():
    repo = os.path.abspath(sys.argv[1])
    out_path = sys.argv[2]
    per_file = int(sys.argv[3]) if len(sys.argv) > 3 else 12
    wall = sys.argv[4] if len(sys.argv) > 4 else '12'
    assert repo != '/repo' and os.path.isdir(os.path.join(repo, 'depccg')), 'give a scratch copy of the repository'
    rng = random.Random(20261002)
    env = dict(os.environ)
    env['DEPSIM_REPO'] = repo
    report = {'mutants': [], 'started': time.strftime('%H:%M:%S')}
    for rel, (rng_lines, checks, with_tests) in TARGETS.items():
        path = os.path.join(repo, rel)
        cands = candidates(path, rng_lines)
        rng.shuffle(cands)
        # at most one mutant per line
        seen_lines, chosen = set(), []
        for c in cands:
            if c[0] in seen_lines:
                continue
            seen_lines.add(c[0])
            chosen.append(c)
            if len(chosen) >= per_file:
                break
        original = open(path, encoding='utf-8').read()
        for (i, old, new, op) in chosen:
            lines = original.split('\n')
            lines[i] = new
            open(path, 'w', encoding='utf-8').write('\n'.join(lines))
            entry = {'file': rel, 'line': i + 1, 'op': op, 'old': old.strip(), 'new': new.strip(), 'results': {}}
            try:
                if rel.endswith('.py') or rel.endswith('.pyx'):
                    rc, _ = run([sys.executable, '-c', f'import ast,sys; ast.parse(open({path!r}).read())']
                                if rel.endswith('.py') else ['true'], env, 60)
                    if rc != 0:
                        entry['status'] = 'does_not_compile'
                        continue
                if with_tests:
                    rc = subprocess.run(
                        [sys.executable, '-m', 'pytest', '-q', '-x', '-p', 'no:cacheprovider',
                         'tests/test_cat.py', 'tests/test_unification.py', 'tests/grammar'],
                        capture_output=True, text=True, cwd=repo, timeout=900).returncode
                    if rc != 0:
                        entry['status'] = 'killed_by_test_suite'
                        continue
                killed = None
                for c in checks:
                    rc, o = run([sys.executable, os.path.join(HERE, 'check.py'), c, '--tier', 'quick', '--no-selftest',
                                 '--no-shrink', '--first', '--wall', wall], env, 900)
                    first = (re.findall(r'violated oracle[^\n]*|HARNESS-ERROR[^\n]*', o) or [''])[0][:200]
                    entry['results'][c] = {'rc': rc, 'first': first}
                    if rc == 1:
                        killed = killed or c
                        break
                    if rc == 2 and 'does not support' in first or 'building the parsing.h shim failed' in o:
                        entry['status'] = 'does_not_compile'
                        break
                if 'status' not in entry:
                    if killed:
                        entry['status'] = 'killed:' + killed
                    elif any(r['rc'] == 2 for r in entry['results'].values()):
                        entry['status'] = 'harness_error'
                    else:
                        entry['status'] = 'survived'
            finally:
                open(path, 'w', encoding='utf-8').write(original)
                report['mutants'].append(entry)
                print(f"{entry.get('status'):24s} {rel}:{i + 1} [{op}] {new.strip()[:90]}", flush=True)
                with open(out_path, 'w') as f:
                    json.dump(report, f, indent=1)
                # remove replay files of the mutant runs
                rd = os.path.join(os.path.dirname(HERE), 'replays')
                if os.path.isdir(rd):
                    for fn in os.listdir(rd):
                        try:
                            os.unlink(os.path.join(rd, fn))
                        except OSError:
                            pass
    counts = {}
    for m in report['mutants']:
        k = m.get('status', '?').split(':')[0]
        counts[k] = counts.get(k, 0) + 1
    report['summary'] = counts
    with open(out_path, 'w') as f:
        json.dump(report, f, indent=1)
    print(counts)


if __name__ == '__main__':
    main()
