"""property registry"""
import importlib

_MODULES = {
    'C01': 'depsim.props.c01', 'C02': 'depsim.props.c02', 'C09': 'depsim.props.c09',
    'C10': 'depsim.props.c10', 'C11': 'depsim.props.c11', 'C12': 'depsim.props.c12',
    'C14': 'depsim.props.c14', 'C16': 'depsim.props.c16', 'C18': 'depsim.props.c18',
    'C19': 'depsim.props.c19', 'C20': 'depsim.props.c20',
}
_cache = {}


def get(name):
    if name not in _cache:
        mod = importlib.import_module(_MODULES[name])
        _cache[name] = mod.PROP
    return _cache[name]


def names():
    return sorted(_MODULES)
