"""Shared machinery of the properties that observe responses of the parse
service: generation of multi-call sessions (swarm), execution under the
simulator, context/schedule/fault reach measures, shrinking."""
import copy
import math

import numpy

from depsim import gen, grammars, refparser, session, simpool
from depsim.runner import Violation, add_set, bump, digest, new_stats

FAMILIES_ALL = ['synth-left', 'synth-right', 'synth-mixed', 'en', 'en-seen', 'ja', 'ja-seen']
FAMILIES_UNIFORM = ['synth-left', 'synth-right', 'en', 'en-seen', 'ja', 'ja-seen']


class ParserSessionProp(object):
    id = None
    level = 'exploration'
    families = FAMILIES_ALL
    max_len = 6
    nbest_choices = (1, 1, 1, 2, 3, 5, 8)
    fault_classes = ('none', 'inband', 'outofband')
    need_poplog = False
    replica_rate = {'quick': 0.0, 'thorough': 0.0}
    fork_rate = {'quick': 0.03, 'thorough': 0.1}
    big_batch_rate = {'quick': 0.0, 'thorough': 0.0}
    penalty_choices = (0.0, 0.1, 0.1, 1.0, 10.0, -0.5, -2.0)   # the repository accepts any float
    rich_tokens = False
    build_variants = ('release', 'assert')   # per run: flags of the shipped extension (-DNDEBUG -O3) or assertions alive
    rule = ''

    # ------------------------------------------------------------ generation
    def bound_costs(self, k):
        if not k['family'].startswith('synth'):
            # the real rule functions cost ~0.5 ms per category pair (13 combinators, patterns re-parsed on
            # every call): bound the searches so that one run stays within seconds
            k['step_cap'] = min(k['step_cap'], 800)
            k['step_cap_nbest'] = min(k['step_cap_nbest'], 500)
            k['max_len'] = min(k['max_len'], 7)
            k['n_calls'] = min(k['n_calls'], 4)
            k['max_batch'] = 8
        return k

    def knobs(self, rng, tier, options):
        return {
            'family': rng.choice(self.families),
            'max_len': self.max_len,
            'fault_class': rng.choice(self.fault_classes),
            'n_calls': rng.randint(2, 6),
            'nbest': rng.choice(self.nbest_choices),
            'unary_penalty': rng.choice(self.penalty_choices),
            'pruning_size': rng.choice([1, 2, 3, 4, 8, 50]),
            'use_beta': rng.random() < 0.3,
            'beta': rng.choice([1e-5, 1e-5, 1e-7]),
            'pooled_bias': rng.choice([0.3, 0.6, 0.9]),
            'replica_rate': self.replica_rate.get(tier, 0.0),
            'fork_rate': self.fork_rate.get(tier, 0.0),
            'big_batch_rate': self.big_batch_rate.get(tier, 0.0),
            'step_cap': rng.choice([20000, 5000]),
            'step_cap_nbest': rng.choice([1500, 4000]),
        }

    def base_cfg(self, rng, knobs):
        return {
            'unary_penalty': knobs['unary_penalty'], 'beta': knobs['beta'],
            'use_beta': knobs['use_beta'], 'pruning_size': knobs['pruning_size'],
            'nbest': knobs['nbest'], 'max_step': knobs['step_cap'] if knobs['nbest'] == 1 else knobs['step_cap_nbest'], 'max_length': 250,
        }

    def world_kwargs(self, rng, knobs):
        return {}

    def tweak_world(self, rng, wspec, knobs):
        pass

    def generate(self, seed, index, tier, options):
        if self.is_stress_run(index, tier):
            return self.generate_stress(seed, index, tier, options)
        if self.is_scale_run(index, tier):
            return self.generate_scale(seed, index, tier, options)
        if self.is_cheap_scale_run(index, tier):
            return self.generate_cheap_scale(seed, index, tier, options)
        rng = gen.stream(seed, self.id + ':ops', index)
        knobs = self.bound_costs(self.knobs(rng, tier, options))
        fam = knobs['family']
        heads = 'mixed' if fam == 'synth-mixed' else None
        wspec = gen.make_world(
            f'{seed}|{self.id}', index, family='synth-left' if fam == 'synth-mixed' else fam,
            max_len=knobs['max_len'], rich_tokens=self.rich_tokens, heads=heads,
            **self.world_kwargs(rng, knobs))
        wspec['family'] = fam
        self.tweak_world(rng, wspec, knobs)
        world = session.World(wspec)
        ops = []
        cfg = self.base_cfg(rng, knobs)
        for _ in range(knobs['n_calls']):
            ops.extend(self.gen_call(rng, world, knobs, cfg))
        return {'prop': self.id, 'seed': seed, 'index': index, 'world': wspec, 'ops': ops,
                'knobs': knobs, 'executor': 'inprocess'}

    # ------------------------------------------------------------ capacity stress runs
    stress_every = {'quick': 0, 'thorough': 0}

    def is_stress_run(self, index, tier):
        every = self.stress_every.get(tier, 0)
        return bool(every) and index % every == 77 % every

    def generate_stress(self, seed, index, tier, options):
        # capacity stress run: a six-word sentence under an "explosive" grammar (every category pair combines into two
        # hashed categories) drives one call past 4*10^5 rule-cache entries and 10^6 agenda pops (ordinary runs: hundreds)
        from depsim import gen
        rng = gen.stream(seed, self.id + ':stress', index)
        nprng = gen.np_stream(rng)
        import numpy
        sentences = []
        xl = tier == 'thorough'
        # thorough tier: four six-word sentences with their own four lexical categories each share one call.  The
        # hashed categories they derive differ, so each adds ~4*10^5 new keys to the call's rule cache, which passes
        # 2^20 entries in the middle of the search of the third one (with one shared lexicon every sentence walks the
        # same closed set of keys and the cache stops growing after the first)
        lengths = [6, 6, 6, 6, 2] if xl else [6, 2]
        n_lex = 4 * len(lengths) if xl else 4
        for sid, n in enumerate(lengths):
            tag, dep = gen.make_scores(nprng, rng, n, 4, 'continuous')
            if xl:
                wide = numpy.full((n, n_lex), -100.0, dtype=numpy.float32)
                wide[:, 4 * sid:4 * sid + 4] = tag
                tag = wide
            if n > 2:
                # a very improbable root attachment: every complete parse has a low priority, so the search
                # visits almost the whole space (and fills the cache) before it pops its first goal item
                dep[:, 0] = -50.0
            sentences.append({'words': [f's{sid}x{i}' for i in range(n)], 'tag': gen.arr_to_hex(tag),
                              'dep': gen.arr_to_hex(dep), 'style': 'continuous', 'rich': False, 'favoured': None})
        modulus = 3000
        cats = [f'{c}{k}' for k in range(len(lengths)) for c in 'ABCD'] if xl else ['A', 'B', 'C', 'D']
        wspec = {'family': 'stress',
                 'grammar': {'kind': 'explosive', 'modulus': modulus, 'salt': rng.getrandbits(20),
                             'fanout': 2,      # two hashed results per pair: > 10^6 pops and agenda entries for six words
                             'categories': cats, 'roots': [f'H{k}' for k in range(modulus)], 'lang': 'en'},
                 'sentences': sentences}
        op = {'op': 'call', 'batch': [0, 1, 2, 3, 4] if xl else [0, 1, 0], 'processes': 1, 'max_chunk_size': 20, 'unary_penalty': 0.1,
              'beta': 1e-5, 'use_beta': False, 'pruning_size': 4, 'nbest': 1, 'max_step': 3000000, 'max_length': 250}
        return {'prop': self.id, 'seed': seed, 'index': index, 'world': wspec, 'ops': [op],
                'knobs': {'family': 'stress', 'fault_class': 'none', 'nbest': 1}, 'executor': 'inprocess'}


    # ------------------------------------------------------------ scale runs
    scale_every = {'quick': 0, 'thorough': 0}      # 0 = never; C02/C09/C11 switch them on

    def is_cheap_scale_run(self, index, tier):
        # the two scale kinds that cost seconds (very long sentences over the chain grammar, tag inventories beyond
        # 2^16) run far more often than the expensive ones, in every check that has scale runs at all
        if not self.scale_every.get(tier, 0):
            return False
        every = self.cheap_scale_every.get(tier, 0)
        kinds = [k for k in ('very_long', 'wide') if k in self.scale_kinds]
        return bool(every) and bool(kinds) and index % every == every // 2 + 1

    cheap_scale_every = {'quick': 40, 'thorough': 30}

    def generate_cheap_scale(self, seed, index, tier, options):
        rng = gen.stream(seed, self.id + ':cheapscale', index)
        nprng = gen.np_stream(rng)
        kinds = [k for k in ('very_long', 'wide') if k in self.scale_kinds]
        if rng.choice(kinds) == 'wide':
            return self.generate_wide(seed, index, tier, rng, nprng)
        return self.generate_very_long(seed, index, tier, rng, nprng)

    def is_scale_run(self, index, tier):
        every = self.scale_every.get(tier, 0)
        return bool(every) and index % every == every // 2

    def generate_scale(self, seed, index, tier, options):
        """dimensions far beyond the ordinary runs: 64-425 supertags (425 is the size of the shipped English
        inventory), sentences of 17-130 words, pruning_size 50 (the default) -- over a small synthetic grammar, so
        that the search stays cheap.  Fixed-size buffers, narrow integer types and quadratic bookkeeping only show
        at such sizes."""
        import numpy
        rng = gen.stream(seed, self.id + ':scale', index)
        nprng = gen.np_stream(rng)
        r = rng.random()
        kinds = self.scale_kinds
        if r < 0.45 and 'dense_long' in kinds:
            return self.generate_dense_long(seed, index, tier, rng, nprng)
        if r < 0.62 and 'very_long' in kinds:
            return self.generate_very_long(seed, index, tier, rng, nprng)
        if (r < 0.74 and 'wide' in kinds) or 'plain' not in kinds:
            return self.generate_wide(seed, index, tier, rng, nprng)
        T = rng.choice([64, 130, 260, 425])
        cats = [f'T{k}' for k in range(T)]
        head = rng.random() < 0.5
        table = {'T0 || T0': [['T0', 'r0', '<r0>', head]], 'T1 || T0': [['T0', 'r1', '<r1>', head]],
                 'T0 || T2': [['T0', 'r2', '<r2>', head]], f'T0 || T{T - 1}': [['T0', 'r3', '<r3>', head]]}
        unary = {'T1': [['T0', 'u0', '<u0>']], f'T{T - 1}': [['T0', 'u1', '<u1>']]}
        sentences = []
        for sid, n in enumerate([rng.choice([17, 33]), rng.choice([65, 100, 130]), 1, rng.choice([2, 5])]):
            logits = nprng.normal(0.0, 1.0, size=(n, T))
            for i in range(n):
                logits[i, rng.choice([0, 0, 0, 1, 2, T - 1])] += 6.0
            dl = nprng.normal(0.0, 1.0, size=(n, n + 1))
            tag = (logits - numpy.log(numpy.exp(logits).sum(axis=1, keepdims=True))).astype(numpy.float32)
            dep = (dl - numpy.log(numpy.exp(dl).sum(axis=1, keepdims=True))).astype(numpy.float32)
            sentences.append({'words': [f's{sid}x{i}' for i in range(n)], 'tag': gen.arr_to_hex(tag),
                              'dep': gen.arr_to_hex(dep), 'style': 'continuous', 'rich': False, 'favoured': None})
        wspec = {'family': 'scale',
                 'grammar': {'kind': 'synth', 'heads': 'left' if head else 'right', 'binary': table, 'unary': unary,
                             'categories': cats, 'roots': ['T0'], 'lang': 'en'},
                 'sentences': sentences}
        cfg = {'unary_penalty': 0.1, 'beta': 1e-5, 'use_beta': True, 'pruning_size': rng.choice([50, 50, 20, 3]),    # (pruning_size = T = 425 admits 27000 leaf items for 65 words: minutes)
               'nbest': 1, 'max_step': 2000000, 'max_length': 250}
        ops = [dict(cfg, op='call', batch=[0, 1, 2, 3], processes=2, max_chunk_size=20),
               dict(cfg, op='call', batch=[3, 0, 2], processes=2, max_chunk_size=1,
                    schedule={'default_service': 0.05, 'start_delay': {'0': 2.0, '1': 1.0, '2': 0.0}})]
        return {'prop': self.id, 'seed': seed, 'index': index, 'world': wspec, 'ops': ops,
                'knobs': {'family': 'scale', 'fault_class': 'none', 'nbest': 1}, 'executor': 'inprocess'}

    scale_kinds = ('dense_long', 'very_long', 'wide', 'plain')
    very_long_lengths = (255, 256, 257, 300, 511, 512, 513, 640)

    def generate_wide(self, seed, index, tier, rng, nprng):
        """the fourth scale dimension: a tag inventory of more than 2^16 categories (category ids beyond 16 bits).
        Short sentences whose plausible tags are a handful of ids and their twins 65536 higher, over a random rule
        table on exactly those categories, so that an id handled modulo 2^16 (packed keys, narrow fields) meets its
        twin with different rules in the same sentence.  The score matrix is stored sparsely in the spec."""
        T = 65536 + rng.choice([8, 300, 4500])
        low = [0, 1, 2, 3, 4, 5]
        special = low + [65536 + k for k in low]
        cats = [f'T{k}' for k in range(T)]
        head = rng.random() < 0.5
        table = {}
        results = [f'T{k}' for k in special] + ['R0', 'R1']
        for a in special + ['R0', 'R1']:
            for b in special + ['R0', 'R1']:
                if rng.random() < 0.45:
                    x = a if isinstance(a, str) else f'T{a}'
                    y = b if isinstance(b, str) else f'T{b}'
                    outs = rng.sample(results, rng.choice([1, 1, 2]))      # distinct result categories
                    table[f'{x} || {y}'] = [[c, f'r{len(table)}_{j}', f'<r{len(table)}_{j}>', head]
                                            for j, c in enumerate(outs)]
        unary = {f'T{k}': [[rng.choice(results), 'u0', '<u0>']] for k in rng.sample(special, 3)}
        sentences = []
        for sid in range(rng.choice([3, 4])):
            n = rng.choice([2, 3, 4, 5, 6])
            entries = []
            for i in range(n):
                base = rng.sample(low, rng.choice([1, 2, 2]))
                # a tag and its twin 65536 higher both plausible for the same word (or for neighbours)
                picks = sorted(set(base + [65536 + t for t in base if rng.random() < 0.7]))
                lp = nprng.normal(0.0, 1.0, size=len(picks))
                lp = lp - numpy.log(numpy.exp(lp).sum())
                entries.extend([[i, int(t), float(numpy.float32(v))] for t, v in zip(picks, lp)])
            dl = nprng.normal(0.0, 1.0, size=(n, n + 1))
            dep = (dl - numpy.log(numpy.exp(dl).sum(axis=1, keepdims=True))).astype(numpy.float32)
            sentences.append({'words': [f's{sid}x{i}' for i in range(n)],
                              'tag': {'shape': [n, T], 'fill': -40.0, 'entries': entries},
                              'dep': gen.arr_to_hex(dep), 'style': 'continuous', 'rich': False, 'favoured': None})
        wspec = {'family': 'scale',
                 'grammar': {'kind': 'synth', 'heads': 'left' if head else 'right', 'binary': table, 'unary': unary,
                             'categories': cats, 'roots': [f'T{k}' for k in rng.sample(special, 4)] + ['R0'], 'lang': 'en'},
                 'sentences': sentences}
        nbest = rng.choice(self.nbest_choices)
        cfg = {'unary_penalty': 0.1, 'beta': 1e-5, 'use_beta': True, 'pruning_size': rng.choice([4, 8, 50]),
               'nbest': nbest, 'max_step': 20000 if nbest == 1 else 4000, 'max_length': 250}
        sids = list(range(len(sentences)))
        ops = [dict(cfg, op='call', batch=sids, processes=2, max_chunk_size=20),
               dict(cfg, op='call', batch=sids[::-1], processes=2, max_chunk_size=1)]
        return {'prop': self.id, 'seed': seed, 'index': index, 'world': wspec, 'ops': ops,
                'knobs': {'family': 'scale', 'fault_class': 'none', 'nbest': nbest}, 'executor': 'inprocess'}

    def generate_very_long(self, seed, index, tier, rng, nprng):
        """the third scale dimension: sentences of 255-640 words (the caller raised max_length, as --max-length
        does).  The grammar only lets a core word absorb its left and right neighbours one at a time and the model
        is certain of its tags, so the chart has O(n^2) entries and even an exhaustive search is cheap; which
        neighbour is absorbed first is decided by the dependency scores."""
        import numpy
        T = rng.choice([64, 130])
        cats = [f'T{k}' for k in range(T)]
        head = rng.random() < 0.5
        table = {'T1 || T0': [['T0', 'r1', '<r1>', head]], 'T0 || T2': [['T0', 'r2', '<r2>', head]]}
        unary = {'T3': [['T0', 'u0', '<u0>']]}
        sentences = []
        main = rng.choice(self.very_long_lengths)
        for sid, n in enumerate([rng.choice([9, 33]), main, 1, rng.choice([2, 5])]):
            logits = nprng.normal(0.0, 1.0, size=(n, T))
            core = rng.randrange(n)
            for i in range(n):
                logits[i, 1 if i < core else 2 if i > core else rng.choice([0, 3])] += 24.0
            dl = nprng.normal(0.0, 1.0, size=(n, n + 1))
            tag = (logits - numpy.log(numpy.exp(logits).sum(axis=1, keepdims=True))).astype(numpy.float32)
            dep = (dl - numpy.log(numpy.exp(dl).sum(axis=1, keepdims=True))).astype(numpy.float32)
            sentences.append({'words': [f's{sid}x{i}' for i in range(n)], 'tag': gen.arr_to_hex(tag),
                              'dep': gen.arr_to_hex(dep), 'style': 'continuous', 'rich': False, 'favoured': None})
        wspec = {'family': 'scale',
                 'grammar': {'kind': 'synth', 'heads': 'left' if head else 'right', 'binary': table, 'unary': unary,
                             'categories': cats, 'roots': ['T0'], 'lang': 'en'},
                 'sentences': sentences}
        cfg = {'unary_penalty': 0.1, 'beta': 1e-5, 'use_beta': True, 'pruning_size': rng.choice([50, 3]),
               'nbest': 1, 'max_step': 3000000, 'max_length': rng.choice([main, main + 1, 5000])}
        ops = [dict(cfg, op='call', batch=[0, 1, 2, 3], processes=2, max_chunk_size=20),
               dict(cfg, op='call', batch=[1, 3], processes=2, max_chunk_size=1)]
        return {'prop': self.id, 'seed': seed, 'index': index, 'world': wspec, 'ops': ops,
                'knobs': {'family': 'scale', 'fault_class': 'none', 'nbest': 1}, 'executor': 'inprocess'}

    def generate_dense_long(self, seed, index, tier, rng, nprng):
        """the other scale dimension: a sentence of 90-120 words over four categories that all combine with each other
        and an improbable root attachment, so that the 1-best search pops several million items and its agenda holds
        more than a million entries before the first complete parse is accepted"""
        import numpy
        head = rng.random() < 0.5
        peaked = rng.random() < 0.6
        table = {f'X{i} || X{j}': [[f'X{(i + j) % 4}', f'r{i}{j}', f'<r{i}{j}>', head]] for i in range(4) for j in range(4)}
        sentences = []
        for sid, n in enumerate([rng.choice([90, 120]), 3]):
            logits = nprng.normal(0.0, 1.0, size=(n, 4))
            dl = nprng.normal(0.0, 1.0, size=(n, n + 1))
            if peaked:
                # a confident model (as real taggers are): one tag and one head per word carry almost all the mass.
                # The search dives to a complete analysis within ~10^4 steps while its agenda already holds > 10^6
                # queued edges, and the goal item then waits (root attachment -8) behind everything within 8 nats
                tb, db = rng.choice([(7.0, 9.0), (5.0, 6.0)])
                for i in range(n):
                    logits[i, rng.randrange(4)] += tb
                    gold_head = (i - 1 if i > 0 else 1) if head else (i + 1 if i < n - 1 else n - 2)
                    if n > 1:
                        dl[i, gold_head + 1] += db
            tag = (logits - numpy.log(numpy.exp(logits).sum(axis=1, keepdims=True))).astype(numpy.float32)
            dep = (dl - numpy.log(numpy.exp(dl).sum(axis=1, keepdims=True))).astype(numpy.float32)
            dep[:, 0] = -8.0
            sentences.append({'words': [f's{sid}x{i}' for i in range(n)], 'tag': gen.arr_to_hex(tag),
                              'dep': gen.arr_to_hex(dep), 'style': 'continuous', 'rich': False, 'favoured': None})
        wspec = {'family': 'scale',
                 'grammar': {'kind': 'synth', 'heads': 'left' if head else 'right', 'binary': table, 'unary': {},
                             'categories': ['X0', 'X1', 'X2', 'X3'],
                             'roots': rng.sample(['X0', 'X1', 'X2', 'X3'], rng.choice([1, 2, 4])), 'lang': 'en'},
                 'sentences': sentences}
        cfg = {'unary_penalty': 0.1, 'beta': 1e-5, 'use_beta': False, 'pruning_size': 4, 'nbest': 1,
               'max_step': 20000000, 'max_length': 250}
        ops = [dict(cfg, op='call', batch=[1, 0, 1], processes=2, max_chunk_size=20)]
        return {'prop': self.id, 'seed': seed, 'index': index, 'world': wspec, 'ops': ops,
                'knobs': {'family': 'scale', 'fault_class': 'none', 'nbest': 1}, 'executor': 'inprocess'}

    def gen_batch(self, rng, world, knobs):
        sids = list(range(len(world.tokens)))
        r = rng.random()
        if r < 0.12:
            return [rng.choice(sids)]
        size = rng.randint(2, knobs.get('max_batch', 12))
        if rng.random() < knobs.get('big_batch_rate', 0.0) and 'max_batch' not in knobs:
            size = rng.randint(21, 32)           # larger than the repository's default chunk size
        if rng.random() < 0.35 or size > 20:
            return [rng.choice(sids) for _ in range(size)]
        batch = list(sids)
        rng.shuffle(batch)
        while len(batch) < size and rng.random() < 0.5:
            batch.append(rng.choice(sids))
        return batch[:max(1, min(size, len(batch)))]

    def gen_schedule(self, rng, n_tasks, processes):
        sched = {'default_service': round(rng.choice([0.01, 0.2, 0.7, 2.5]), 3)}
        if rng.random() < 0.7:
            sched['service'] = {str(i): round(rng.expovariate(1 / 0.4) + 0.001, 4) for i in range(n_tasks)}
        if rng.random() < 0.15 and n_tasks:
            sched['stall'] = {str(rng.randrange(n_tasks)): rng.choice([90.0, 600.0])}
        if rng.random() < 0.3:
            sched['worker_choice'] = {str(i): rng.randrange(8) for i in range(n_tasks)}
        if rng.random() < 0.25:
            # force "last submitted finishes first"
            sched['start_delay'] = {str(i): round((n_tasks - i) * rng.choice([0.3, 1.1, 3.0]), 3)
                                    for i in range(n_tasks)}
        return sched

    def gen_call(self, rng, world, knobs, cfg):
        batch = self.gen_batch(rng, world, knobs)
        processes = rng.randint(1, 5)
        if len(batch) > 20 and rng.random() < 0.7:
            mcs = 20                             # the default max_chunk_size: the pooled path as shipped
        elif rng.random() < knobs['pooled_bias'] and len(batch) > 1:
            mcs = rng.choice([0, 1, 1, 2, 3, 4, 8])
        else:
            mcs = rng.choice([20, 12, len(batch)])
        op = dict(cfg)
        op.update({'op': 'call', 'batch': batch, 'processes': processes, 'max_chunk_size': mcs})
        if len(batch) == 1 and rng.random() < 0.5 and mcs >= 1:
            op['single'] = True
        pooled = len(batch) > mcs
        if pooled:
            splits = math.ceil(len(batch) / max(processes, 1))
            n_tasks = math.ceil(len(batch) / splits)
            op['schedule'] = self.gen_schedule(rng, n_tasks, processes)
            if rng.random() < knobs.get('fork_rate', 0.0):
                op['executor_mode'] = 'fork'     # the chunk really runs in a forked child process
            elif rng.random() < knobs.get('replica_rate', 0.0):
                # F6: the workers of this call are other interpreters under other string-hash seeds
                op['executor_mode'] = 'replica'
                op['schedule']['replica_seeds'] = [rng.choice([1, 2, 3]) for _ in range(processes)]
        fc = knobs['fault_class']
        if fc == 'inband' and rng.random() < 0.8:
            self.add_inband_fault(rng, world, op)
        elif fc == 'outofband' and rng.random() < 0.6:
            self.add_outofband_fault(rng, world, op)
        return [op]

    def add_inband_fault(self, rng, world, op):
        kind = rng.choice(['budget', 'budget', 'length'])
        if kind == 'length':
            lengths = sorted({world.n(s) for s in op['batch']})
            pick = rng.choice(lengths)
            op['max_length'] = max(0, pick - rng.choice([0, 1]))
            op['fault'] = {'kind': 'F2'}
        else:
            victim = rng.choice(op['batch'])
            cfg = session.cfg_of(op)
            kind_, canon, resp, prec = session.alone(world, victim, cfg)
            need = prec['pops'] if prec else 1
            choice = rng.choice(['below', 'at', 'above', 'one', 'half'])
            step = {'below': need - 1, 'at': need, 'above': need + 1, 'one': 1, 'half': need // 2}[choice]
            op['max_step'] = max(0, step)
            op['fault'] = {'kind': 'F1', 'victim': victim, 'need': need, 'where': choice}

    def add_outofband_fault(self, rng, world, op):
        kind = rng.choice(['callback', 'malformed'])
        if kind == 'callback':
            op['fault'] = {'kind': 'F4', 'which': rng.choice(['binary', 'binary', 'unary']),
                           'at': rng.choice([1, 1, 2, 3, 5, 8, 13, 30]),
                           'mode': rng.choice(['raise', 'raise', 'malformed_tail'])}
        else:
            op['fault'] = {'kind': 'F7',
                           'what': rng.choice(['tag_width', 'dep_shape', 'length_mismatch', 'rows',
                                               'scores_not_a_list', 'doc_not_nested', 'categories_longer',
                                               'dep_extra_axis', 'tag_extra_axis', 'dep_vector']),
                           'pos': rng.randrange(len(op['batch']))}
            op.pop('single', None)

    # ------------------------------------------------------------ execution
    def run_call(self, world, op, executor_mode):
        from depccg.types import ScoringResult
        fault = op.get('fault') or {}
        kwargs = {}
        counting = None
        if fault.get('kind') == 'F4':
            if fault['which'] == 'binary':
                kwargs['binary'] = grammars.FaultyCallable(world.binary, fault['at'], mode=fault.get('mode', 'raise'))
            else:
                kwargs['unary'] = grammars.FaultyCallable(world.unary, fault['at'], mode=fault.get('mode', 'raise'))
        elif fault.get('kind') == 'F7':
            counting = (grammars.CountingCallable(world.binary), grammars.CountingCallable(world.unary))
            kwargs['binary'], kwargs['unary'] = counting
            batch = op['batch']
            pos = fault['pos']
            doc = [world.tokens[s] for s in batch]
            scores = [ScoringResult(world.tag[s], world.dep[s]) for s in batch]
            sid = batch[pos]
            n, T = world.tag[sid].shape
            if fault['what'] == 'tag_width':
                bad = numpy.zeros((n, T + 1), dtype=numpy.float32)
                bad[:, :T] = world.tag[sid]
                scores[pos] = ScoringResult(bad, world.dep[sid])
            elif fault['what'] == 'dep_shape':
                scores[pos] = ScoringResult(world.tag[sid], numpy.ascontiguousarray(world.dep[sid][:, :n]))
            elif fault['what'] == 'dep_extra_axis':
                # the labelled-arc tensor (n, n+1, L) where the (n, n+1) arc matrix belongs: right leading axes, wrong rank
                scores[pos] = ScoringResult(world.tag[sid], numpy.ascontiguousarray(
                    numpy.repeat(world.dep[sid][:, :, None], 3, axis=2)))
            elif fault['what'] == 'tag_extra_axis':
                scores[pos] = ScoringResult(numpy.ascontiguousarray(world.tag[sid][:, :, None]), world.dep[sid])
            elif fault['what'] == 'dep_vector':
                scores[pos] = ScoringResult(world.tag[sid], numpy.ascontiguousarray(world.dep[sid][:, 0]))
            elif fault['what'] == 'length_mismatch':
                if len(scores) > 1:
                    scores = scores[:-1]
                else:
                    scores = scores + scores
            elif fault['what'] == 'rows':
                from depccg.types import Token
                doc[pos] = doc[pos] + [Token.of_word('extra')]
            elif fault['what'] == 'scores_not_a_list':
                scores = scores[pos]                     # many sentences, one ScoringResult
                if len(doc) == 1:
                    doc = doc + doc
            elif fault['what'] == 'doc_not_nested':
                doc = doc[pos]                           # one sentence, many ScoringResults
                if len(scores) == 1:
                    scores = scores + scores
            elif fault['what'] == 'categories_longer':
                from depccg.cat import Category
                kwargs['categories_override'] = list(world.categories) + [Category.parse('ZZZ')]
            kwargs['doc_override'] = doc
            kwargs['scores_override'] = scores
        if op.get('executor_mode') and executor_mode == 'inprocess':
            executor_mode = op['executor_mode']
        rec = session.exec_call(world, op, executor_mode=executor_mode, poplog=self.need_poplog, **kwargs)
        rec.counting = counting
        return rec

    def execute(self, spec, executor_mode=None):
        executor_mode = executor_mode or spec.get('executor', 'inprocess')
        world = session.World(spec['world'])
        self._last_world = world
        if self.fresh_alone:
            world.reference = session.AloneServer(world)      # forked before the first call of the session
        stats = new_stats()
        violations = []
        log = []
        try:
            return self._execute_ops(spec, world, executor_mode, stats, violations, log)
        finally:
            if getattr(world, 'reference', None) is not None:
                world.reference.close()

    fresh_alone = False

    def _execute_ops(self, spec, world, executor_mode, stats, violations, log):
        for oi, op in enumerate(spec['ops']):
            rec = self.run_call(world, op, executor_mode)
            self.common_measures(world, op, rec, stats)
            log.append(self.log_entry(rec))
            vs = self.check_call(world, op, rec, stats, spec)
            for v in vs:
                v['op_index'] = oi
                v['property'] = self.id
            violations.extend(vs)
            if violations:
                break
        if len(stats['samples']) < 1 and spec['ops']:
            stats['samples'].append(self.sample_of(spec))
        bump(stats, 'alone_calls', world.alone_calls)
        return {'violations': violations, 'stats': stats, 'log_digest': digest(log)}

    def sample_of(self, spec):
        w = spec['world']
        return {
            'family': w['family'], 'categories': w['grammar']['categories'], 'roots': w['grammar']['roots'][:6],
            'sentence_lengths': [len(s['words']) for s in w['sentences']],
            'ops': [{k: v for k, v in op.items() if k != 'schedule'} for op in spec['ops']][:3],
            'schedule_of_first_pooled_call': next((op.get('schedule') for op in spec['ops'] if op.get('schedule')), None),
        }

    def log_entry(self, rec):
        if rec.responses is not None:
            body = [refparser.canon_response(r) for r in rec.responses]
        else:
            body = None
        return {'resp': digest(body), 'exc': rec.exception, 'sched': rec.schedule_sig,
                'sim': digest(rec.sim.log), 'ctx': rec.contexts}

    def common_measures(self, world, op, rec, stats):
        bump(stats, 'calls')
        bump(stats, 'sim_seconds', rec.sim.now)
        pooled = bool(rec.pool['pools'])
        bump(stats, 'calls_pooled' if pooled else 'calls_inprocess')
        if world.spec.get('family') == 'scale':
            bump(stats, 'scale_calls')
            stats['counters']['largest_sentence_words'] = max(stats['counters'].get('largest_sentence_words', 0),
                                                               max(world.n(s) for s in op['batch']))
            stats['counters']['largest_tag_inventory'] = max(stats['counters'].get('largest_tag_inventory', 0),
                                                              len(world.categories))
        add_set(stats, 'schedule_signatures', digest(rec.schedule_sig))
        fault = op.get('fault') or {}
        if pooled and op.get('executor_mode') == 'replica':
            bump(stats, 'fault:F6_workers_under_other_hashseed')
        if pooled and op.get('executor_mode') == 'fork':
            bump(stats, 'probe:pooled_call_with_really_forked_workers')
        if pooled:
            order = rec.pool['completed_order']
            if order != sorted(order):
                bump(stats, 'probe:completion_order_differs_from_submission')
            if rec.pool['submitted'] < op.get('processes', 2):
                bump(stats, 'probe:fewer_chunks_than_workers')
            if (op.get('schedule') or {}).get('stall'):
                bump(stats, 'fault:F5_stalled_worker')
            if (op.get('schedule') or {}).get('start_delay') or (op.get('schedule') or {}).get('service'):
                bump(stats, 'fault:F5_service_time_skew')
        for pos, ctx in enumerate(rec.contexts):
            if ctx is None:
                continue
            add_set(stats, 'context_signatures', ctx)
            bump(stats, 'ctx:' + ctx[0])
            p = rec.per_sentence[pos]
            if ctx[2] == 'warm':
                bump(stats, 'probe:parsed_on_cache_warmed_by_earlier_sentence')
            if ctx[3] == 'after-failure' and p is not None and p['status'] == 0:
                bump(stats, 'probe:success_right_after_failure_in_same_task')
            if p is not None:
                if p['pops'] >= p['max_step'] and p['status'] != 0:
                    bump(stats, 'fault:F1_budget_cut_search')
                if p['status'] == 0 and p['pops'] == p['max_step']:
                    bump(stats, 'probe:goal_popped_exactly_on_last_allowed_step')
                if p['status'] != 0 and p['pops'] < p['max_step']:
                    bump(stats, 'fault:F3_no_derivation')
            elif rec.responses is not None:
                bump(stats, 'fault:F2_over_length')
        if fault.get('kind') == 'F4' and rec.exception and 'injected grammar fault' in rec.exception[1]:
            bump(stats, 'fault:F4_callback_raised')
        if fault.get('kind') == 'F7':
            bump(stats, 'fault:F7_malformed_input')

    def confirm(self, spec, violation):
        """a violation seen in a run with pooled calls is re-executed with really
        forked workers: in-process simulated workers share module globals with the
        parent, which real workers do not (isolation artefact => harness error)"""
        import math as _m
        if spec.get('regenerate'):
            return True, 'crash during generation'
        oi = violation.get('op_index')
        if isinstance(oi, int) and oi < len(spec['ops']) and spec['ops'][oi].get('executor_mode') in ('replica', 'fork'):
            return True, 'observed with workers that already were separate processes'
        pooled = any(op.get('op') == 'call' and len(op['batch']) > op.get('max_chunk_size', 20)
                     for op in spec['ops'])
        if not pooled:
            return True, 'no pooled call'
        from depsim.runner import same_failure, execute_spec
        res = execute_spec(self, spec, executor_mode='fork')
        if any(same_failure(v, violation) for v in res['violations']):
            return True, 'reproduced with forked workers'
        if res['violations']:
            return True, 'fails (differently) with forked workers'
        return False, 'clean with forked workers'

    # ------------------------------------------------------------ to be provided
    def check_call(self, world, op, rec, stats, spec):
        raise NotImplementedError

    # ------------------------------------------------------------ shrinking
    def shrink_candidates(self, spec):
        ops = spec['ops']
        # 1. drop operations (later first keeps the failing prefix intact)
        for i in range(len(ops)):
            cand = copy.deepcopy(spec)
            del cand['ops'][i]
            if cand['ops']:
                yield cand
        # 2. simplify each call
        for i, op in enumerate(ops):
            if op.get('op') != 'call':
                continue
            batch = op['batch']
            if len(batch) > 1 and not (op.get('fault') or {}).get('kind') == 'F7':
                for j in range(len(batch)):
                    cand = copy.deepcopy(spec)
                    del cand['ops'][i]['batch'][j]
                    cand['ops'][i].pop('schedule', None)
                    yield cand
            if op.get('schedule'):
                cand = copy.deepcopy(spec)
                cand['ops'][i]['schedule'] = {}
                yield cand
                for key in ('stall', 'worker_choice', 'start_delay', 'service'):
                    if key in op['schedule']:
                        cand = copy.deepcopy(spec)
                        del cand['ops'][i]['schedule'][key]
                        yield cand
            if op.get('fault'):
                cand = copy.deepcopy(spec)
                f = cand['ops'][i].pop('fault')
                if f.get('kind') == 'F1':
                    cand['ops'][i]['max_step'] = 20000 if cand['ops'][i].get('nbest', 1) == 1 else 4000
                if f.get('kind') == 'F2':
                    cand['ops'][i]['max_length'] = 250
                yield cand
            if op.get('processes', 2) > 1:
                cand = copy.deepcopy(spec)
                cand['ops'][i]['processes'] = 1
                cand['ops'][i].pop('schedule', None)
                yield cand
            if op.get('max_chunk_size', 20) < len(batch):
                cand = copy.deepcopy(spec)
                cand['ops'][i]['max_chunk_size'] = 20
                cand['ops'][i].pop('schedule', None)
                yield cand
            if op.get('nbest', 1) > 1:
                cand = copy.deepcopy(spec)
                cand['ops'][i]['nbest'] = 1
                yield cand
            if op.get('unary_penalty', 0.1) != 0.1:
                cand = copy.deepcopy(spec)
                cand['ops'][i]['unary_penalty'] = 0.1
                yield cand
        # 3. shrink the world: drop unused sentences, drop tokens, round scores
        used = sorted({s for op in ops if op.get('op') == 'call' for s in op['batch']})
        nsent = len(spec['world']['sentences'])
        if len(used) < nsent:
            remap = {s: k for k, s in enumerate(used)}
            cand = copy.deepcopy(spec)
            cand['world']['sentences'] = [cand['world']['sentences'][s] for s in used]
            for op in cand['ops']:
                if op.get('op') == 'call':
                    op['batch'] = [remap[s] for s in op['batch']]
                    if (op.get('fault') or {}).get('victim') is not None:
                        op['fault']['victim'] = remap.get(op['fault']['victim'], 0)
            yield cand
        for s in used:
            sent = spec['world']['sentences'][s]
            n = len(sent['words'])
            if n > 1:
                for drop in range(n):
                    cand = copy.deepcopy(spec)
                    cs = cand['world']['sentences'][s]
                    tag = gen.hex_to_arr(cs['tag'])
                    dep = gen.hex_to_arr(cs['dep'])
                    tag = numpy.delete(tag, drop, axis=0)
                    dep = numpy.delete(numpy.delete(dep, drop, axis=0), drop + 1, axis=1)
                    cs['words'] = [w for k, w in enumerate(cs['words']) if k != drop]
                    cs['tag'] = gen.arr_to_hex(tag)
                    cs['dep'] = gen.arr_to_hex(dep)
                    yield cand
        # drop a tag column
        T = len(spec['world']['grammar']['categories'])
        if T > 1:
            for col in range(T):
                cand = copy.deepcopy(spec)
                g = cand['world']['grammar']
                del g['categories'][col]
                for cs in cand['world']['sentences']:
                    tag = numpy.delete(gen.hex_to_arr(cs['tag']), col, axis=1)
                    cs['tag'] = gen.arr_to_hex(tag)
                yield cand
        # drop rules of a synthetic table
        g = spec['world']['grammar']
        if g['kind'] == 'synth':
            for key in list(g['binary']):
                cand = copy.deepcopy(spec)
                del cand['world']['grammar']['binary'][key]
                yield cand
            for key in list(g['unary']):
                cand = copy.deepcopy(spec)
                del cand['world']['grammar']['unary'][key]
                yield cand
            if len(g['roots']) > 1:
                for r in range(len(g['roots'])):
                    cand = copy.deepcopy(spec)
                    del cand['world']['grammar']['roots'][r]
                    yield cand
        # round scores
        for s in used:
            cs0 = spec['world']['sentences'][s]
            tag = gen.hex_to_arr(cs0['tag'])
            dep = gen.hex_to_arr(cs0['dep'])
            rt = numpy.round(tag, 1).astype(numpy.float32)
            rd = numpy.round(dep, 1).astype(numpy.float32)
            if not (numpy.array_equal(rt, tag) and numpy.array_equal(rd, dep)):
                cand = copy.deepcopy(spec)
                cand['world']['sentences'][s]['tag'] = gen.arr_to_hex(rt)
                cand['world']['sentences'][s]['dep'] = gen.arr_to_hex(rd)
                yield cand
