"""C01 -- A* returns the highest-scoring derivation; popped priorities never increase"""
import numpy

from depsim import gen, refparser, session
from depsim.props.base import ParserSessionProp, FAMILIES_UNIFORM
from depsim.runner import Violation, add_set, bump, digest


class C01(ParserSessionProp):
    id = 'C01'
    scale_every = {'quick': 150, 'thorough': 80}
    very_long_lengths = (255, 256, 257, 300, 300, 511, 640)      # the cubic Viterbi reference bounds what is affordable
    stress_every = {'quick': 400, 'thorough': 150}
    families = FAMILIES_UNIFORM
    max_len = 6
    nbest_choices = (1, 1, 1, 2, 4)      # the first parse of an n-best list must be optimal too; every pop is monitored
    penalty_choices = (0.0, 0.1, 0.1, 1.0, 10.0)      # the property is stated for penalties >= 0
    fault_classes = ('none', 'none', 'inband')
    need_poplog = True
    rule = ('case = (sentence, config, context) response of the real A* search (parsing.h) inside a simulated '
            'session with a head-uniform grammar; oracle = exhaustive Viterbi chart over category values on the '
            'tags the independent beam model admits, plus the pop-hook monitor (priority never increases). '
            'Distinct = digest of (scores, grammar, config, context); non-trivial = the reference sees '
            'at least two complete root-licensed derivation classes with different scores.')

    def knobs(self, rng, tier, options):
        k = super().knobs(rng, tier, options)
        # beam settings under which every reading of the thresholds admits the same tags (DESIGN 3.10)
        k['use_beta'] = rng.random() < 0.3
        k['beta'] = 1e-30 if k['use_beta'] else 1e-5
        # the Viterbi reference is polynomial: longer sentences than the enumerating checks can afford
        k['max_len'] = rng.choice([4, 6, 6, 8]) if tier == 'quick' else rng.choice([6, 8, 10])
        return k

    def tweak_world(self, rng, wspec, knobs):
        # with the beta filter off only pruning_size limits the tags: extremely improbable tags (log-probability
        # far below anything exp() can represent in single precision) stay admitted and may carry the only derivation
        if knobs['use_beta']:
            return
        from depsim import gen
        for s in wspec['sentences']:
            if rng.random() < 0.25:
                tag = gen.hex_to_arr(s['tag'])
                n, T = tag.shape
                fav = s.get('favoured')
                for i in range(n):
                    if rng.random() < 0.5:
                        t = fav[i] if (fav and rng.random() < 0.6) else rng.randrange(T)
                        tag[i, t] = rng.choice([-150.0, -1000.0])
                s['tag'] = gen.arr_to_hex(tag)
                s['improbable_tags'] = True

    def check_call(self, world, op, rec, stats, spec):
        out = []
        if rec.exception is not None or rec.ub or rec.unraisable:
            return out
        cfg = session.cfg_of(op)
        penalty = session.f32(cfg['unary_penalty'])
        for pos, sid in enumerate(op['batch']):
            if pos >= len(rec.responses):
                break
            p = rec.per_sentence[pos]
            if p is None:
                continue
            # ---- agenda order monitor
            log = p.get('poplog')
            if log is not None and len(log) > 1:
                prio = (log['in_score'] + log['out_score']).astype(numpy.float64)
                inc = prio[1:] - prio[:-1]
                tol = 2e-5 * numpy.maximum(1.0, numpy.abs(prio[:-1]))
                bad = numpy.nonzero(inc > tol)[0]
                bump(stats, 'pops_monitored', len(log))
                if len(bad):
                    k = int(bad[0])
                    out.append(Violation(
                        oracle='pop_priority_monotone',
                        message=(f'sentence {sid}: pop {k + 1} has priority {prio[k + 1]:.6f} after '
                                 f'{prio[k]:.6f} (increase {inc[k]:.3g}, span '
                                 f'{int(log["start_of_span"][k + 1])}+{int(log["span_length"][k + 1])})'),
                        signature={'kind': 'increase'}))
                    return out
            resp = rec.responses[pos]
            surely, maybe = session.admitted_sets(world, sid, cfg)
            try:
                lb = refparser.viterbi(world.n(sid), world.tag0[sid], world.dep0[sid], world.categories,
                                       surely, world.memo, world.roots, penalty)
                ub = lb if surely == maybe else refparser.viterbi(
                    world.n(sid), world.tag0[sid], world.dep0[sid], world.categories,
                    maybe, world.memo, world.roots, penalty)
            except refparser.RefOverflow:
                bump(stats, 'reference_overflow')
                continue
            bump(stats, 'evaluations')
            cut = p['pops'] >= p['max_step']
            key = digest((gen.arr_key(spec['world']['sentences'][sid]['tag']), gen.arr_key(spec['world']['sentences'][sid]['dep']),
                          spec['world']['grammar'].get('categories'), session.cfg_key(cfg), rec.contexts[pos]))
            if lb is not None and refparser.viterbi.last_alternatives >= 2:
                add_set(stats, 'nontrivial', key)
            # a budget at or above the steps the unlimited search needs changes nothing
            fault = op.get('fault') or {}
            if fault.get('kind') == 'F1' and fault.get('victim') == sid and fault.get('where') in ('at', 'above'):
                free = session.alone(world, sid, dict(cfg, max_step=max(cfg['max_step'], 20000)))
                if free[0] == 'ok' and free[3] is not None and free[3]['pops'] <= cfg['max_step']:
                    bump(stats, 'probe:budget_exactly_sufficient_checked')
                    if not session.responses_equal(refparser.canon_response(resp), free[1]):
                        out.append(Violation(
                            oracle='sufficient_budget_changes_nothing',
                            message=(f'sentence {sid}: with max_step={cfg["max_step"]} (the unlimited search needs '
                                     f'{free[3]["pops"]} steps) the response differs from the unlimited one'),
                            signature={'kind': 'budget'}))
                        return out
            if refparser.is_placeholder(resp):
                if not cut and lb is not None:
                    out.append(Violation(
                        oracle='fails_only_without_derivation',
                        message=(f'sentence {sid} reported as failed after {p["pops"]} of {p["max_step"]} steps but '
                                 f'the reference finds a derivation with score {lb:.6f}'),
                        signature={'kind': 'false_failure'}))
                    return out
                if cut and lb is not None and log is not None and len(log):
                    # the budget ran out before any complete parse was accepted: until then every popped edge
                    # must still rank at least as high as the best complete derivation (admissible estimates),
                    # otherwise the search has passed the point where it had to find it
                    mass = float(numpy.abs(world.tag0[sid]).max(axis=1).sum() + numpy.abs(world.dep0[sid]).max(axis=1).sum())
                    tol = refparser.score_tolerance(mass) + 2e-5 * max(1.0, abs(lb))
                    prio = (log['in_score'] + log['out_score']).astype(numpy.float64)
                    bump(stats, 'budget_cut_failures_checked_against_optimum')
                    if float(prio.min()) < lb - tol:
                        k = int(numpy.argmin(prio))
                        out.append(Violation(
                            oracle='search_passed_the_optimum_without_finding_it',
                            message=(f'sentence {sid} ({world.n(sid)} words) reported as failed after the whole budget of '
                                     f'{p["max_step"]} steps; pop {k} already had priority {prio[k]:.6f}, below the score '
                                     f'{lb:.6f} of a complete derivation the search therefore had to accept earlier'),
                            signature={'kind': 'passed_optimum'}))
                        return out
                bump(stats, 'failures_confirmed')
                continue
            score = resp[0].score
            mass = float(numpy.abs(world.tag0[sid]).max(axis=1).sum() + numpy.abs(world.dep0[sid]).max(axis=1).sum())
            tol = refparser.score_tolerance(mass)
            if ub is None or score > ub + tol:
                out.append(Violation(
                    oracle='score_not_above_reference',
                    message=(f'sentence {sid}: returned score {score:.6f} exceeds the best derivation over admitted '
                             f'tags ({ub})'), signature={'kind': 'above'}))
                return out
            if lb is not None and score < lb - tol:
                out.append(Violation(
                    oracle='optimal',
                    message=(f'sentence {sid} (context {rec.contexts[pos]}, {world.spec["family"]}): returned score '
                             f'{score:.6f} but a derivation with score {lb:.6f} exists (gap {lb - score:.4g})'),
                    signature={'kind': 'suboptimal'}))
                return out
            bump(stats, 'optimal_confirmed')

        return out


PROP = C01()
