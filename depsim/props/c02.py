"""C02 -- every returned parse is a derivation licensed by grammar and input"""
from depsim import refparser, session
from depsim.props.base import ParserSessionProp, FAMILIES_ALL
from depsim.runner import Violation, add_set, bump, digest


class C02(ParserSessionProp):
    id = 'C02'
    scale_every = {'quick': 300, 'thorough': 100}
    # no cubic reference is needed for this property: sentences beyond 1024 and 2048 words as well
    very_long_lengths = (255, 256, 257, 300, 511, 512, 513, 640, 1023, 1024, 1025, 1300, 2049)
    families = FAMILIES_ALL
    max_len = 10
    fault_classes = ('none', 'inband', 'outofband')
    rule = ('case = one tree returned by the real depccg.parsing.run somewhere in a simulated multi-call '
            'session (cold/warm cache, in-process/pooled, after failed or budget-cut sentences, n-best 1-8, '
            'synthetic left/right/mixed-headed tables and real en/ja rule functions with and without seen-rule '
            'filtering; one run in 150-400 is a capacity stress run that drives the rule cache of one call past '
            '3*10^5 entries).  Oracle re-derives every node with fresh grammar calls.  Distinct = canonical tree '
            'digest + context; non-trivial = tree has at least one binary node.')

    stress_every = {'quick': 400, 'thorough': 150}

    def check_call(self, world, op, rec, stats, spec):
        if spec['world'].get('family') == 'stress':
            bump(stats, 'stress_runs')
            for p in rec.per_sentence:
                if p is not None:
                    stats['counters']['largest_rule_cache_entries'] = max(
                        stats['counters'].get('largest_rule_cache_entries', 0), p['cache_after'])
        out = []

        def vio(oracle, message, **sig):
            out.append(Violation(oracle=oracle, message=message, signature=sig))
        if rec.ub:
            vio('reads_own_results', f'finalizer indexed the rule cache out of range: {rec.ub[0]}', kind='ub')
            return out
        if rec.unraisable:
            vio('finalizer_error', f'exception swallowed inside the finalizer: {rec.unraisable[0]}',
                kind=rec.unraisable[0][1].split('(')[0])
            return out
        if rec.exception is not None or (op.get('fault') or {}).get('kind') == 'F7':
            return out
        cfg = session.cfg_of(op)
        for pos, sid in enumerate(op['batch']):
            if pos >= len(rec.responses):
                break
            resp = rec.responses[pos]
            bump(stats, 'responses')
            if refparser.is_placeholder(resp):
                bump(stats, 'placeholders_checked')
                continue
            if not isinstance(resp, list) or not (1 <= len(resp) <= max(1, cfg['nbest'])):
                vio('well_formed_response', f'response for sentence {sid} has {len(resp)} entries '
                    f'(nbest={cfg["nbest"]})', kind='count')
                break
            _, maybe = session.admitted_sets(world, sid, dict(cfg, use_beta=False))
            for st in resp:
                bump(stats, 'evaluations')
                shape = refparser.tree_shape_stats(st.tree)
                if shape['binary'] >= 1:
                    add_set(stats, 'nontrivial', digest((refparser.canon_tree(st.tree), rec.contexts[pos])))
                if shape['max_unary_chain'] >= 2:
                    bump(stats, 'probe:unary_chain_of_two_or_more')
                complaints = refparser.check_licensed(
                    st.tree, world.tokens[sid], world.categories, world.memo, world.roots, maybe)
                if complaints:
                    kind = complaints[0].split(' ')[0] + '_' + complaints[0].split(' ')[1]
                    vio('licensed', f'sentence {sid} (context {rec.contexts[pos]}): ' + '; '.join(complaints[:3]),
                        kind=kind)
                    return out
        return out


PROP = C02()
