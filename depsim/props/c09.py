"""C09 -- the reported score is the model score of the returned tree"""
import math

from depsim import refparser, session
from depsim.props.base import ParserSessionProp, FAMILIES_ALL
from depsim.runner import Violation, add_set, bump, digest


class C09(ParserSessionProp):
    id = 'C09'
    scale_every = {'quick': 300, 'thorough': 100}
    # no cubic reference is needed for this property: sentences beyond 1024 and 2048 words as well
    very_long_lengths = (255, 256, 257, 300, 511, 512, 513, 640, 1023, 1024, 1025, 1300, 2049)
    families = FAMILIES_ALL
    max_len = 10
    fault_classes = ('none', 'inband')
    rule = ('case = one (tree, score) returned by the real depccg.parsing.run in a simulated session; the score '
            'is recomputed in float64 from the pristine matrices held by the harness following the tree\'s own '
            'head flags (tags + dependency of every non-head child + root attachment - penalty per unary node). '
            'Distinct = canonical tree digest + penalty; non-trivial = at least one binary node and (a unary '
            'node or a right-headed node).')

    def check_call(self, world, op, rec, stats, spec):
        out = []
        if rec.exception is not None or rec.ub or rec.unraisable:
            return out
        cfg = session.cfg_of(op)
        penalty = session.f32(cfg['unary_penalty'])
        for pos, sid in enumerate(op['batch']):
            if pos >= len(rec.responses):
                break
            resp = rec.responses[pos]
            if refparser.is_placeholder(resp):
                bump(stats, 'placeholders_checked')
                continue
            if len(resp) == 1 and resp[0].tree.is_leaf and resp[0].tree.children[0].get('word') == 'FAILED' \
                    and resp[0].score != -math.inf and world.tokens[sid][0].get('word') != 'FAILED':
                out.append(Violation(oracle='placeholder_score', message=f'placeholder carries score {resp[0].score}',
                                     signature={'kind': 'placeholder'}))
                return out
            for rank, st in enumerate(resp):
                bump(stats, 'evaluations')
                try:
                    want, mass = refparser.tree_score(st.tree, world.tag0[sid], world.dep0[sid],
                                                      world.cat_index, penalty)
                except (KeyError, IndexError):
                    bump(stats, 'skipped_invalid_tree')
                    continue
                shape = refparser.tree_shape_stats(st.tree)
                if shape['binary'] >= 1 and (shape['unary'] >= 1 or shape['right_headed'] >= 1):
                    add_set(stats, 'nontrivial', digest((refparser.canon_tree(st.tree), penalty)))
                if shape['right_headed']:
                    bump(stats, 'probe:right_headed_node_in_returned_tree')
                tol = refparser.score_tolerance(mass)
                if not (abs(want - st.score) <= tol):
                    heads = world.g['spec'].get('heads') or world.g['lang']
                    out.append(Violation(
                        oracle='score_accounting',
                        message=(f'sentence {sid} tree #{rank} (context {rec.contexts[pos]}): reported '
                                 f'{st.score!r}, recomputed from the tree {want!r} (tolerance {tol:.2e})'),
                        signature={'heads': str(heads), 'unary': shape['unary'] > 0}))
                    return out
        return out


PROP = C09()
