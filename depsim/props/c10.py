"""C10 -- n-best results are the k best distinct derivations, best first"""
import math

from depsim import gen, refparser, session
from depsim.props.base import ParserSessionProp, FAMILIES_UNIFORM
from depsim.runner import Violation, add_set, bump, digest


class C10(ParserSessionProp):
    id = 'C10'
    scale_every = {'quick': 200, 'thorough': 100}
    scale_kinds = ('wide',)          # tag inventories beyond 2^16 categories; the other scale runs are 1-best worlds
    families = FAMILIES_UNIFORM
    max_len = 5
    nbest_choices = (2, 2, 3, 4, 5, 8)
    penalty_choices = (0.0, 0.1, 0.1, 1.0, 10.0)      # the property is stated for penalties >= 0
    fault_classes = ('none', 'none', 'inband')
    rule = ('case = one n-best response (k = 2..8) of the real parser in a simulated session, sentences short '
            'enough (<= 5 words, <= 4 admitted tags per word) for an exhaustive reference enumeration of all '
            'derivations; oracle: trees pairwise different, scores non-increasing, count = min(k, #derivations) '
            'when the step budget was not hit, score multiset = the k largest reference scores (ties at the k-th '
            'place either way), first score = the 1-best answer for the same sentence.  Distinct = digest of '
            '(scores, grammar, k, context); non-trivial = k >= 2 and the reference has >= 2 derivations.')

    def knobs(self, rng, tier, options):
        k = super().knobs(rng, tier, options)
        k['pruning_size'] = rng.choice([1, 2, 3, 4])
        k['use_beta'] = False
        k['step_cap_nbest'] = rng.choice([4000, 8000])
        k['max_len'] = rng.choice([3, 4, 5]) if tier == 'quick' else rng.choice([4, 5, 6])
        return k

    large_k_every = {'quick': 150, 'thorough': 100}

    def generate(self, seed, index, tier, options):
        e = self.large_k_every.get(tier, 0)
        if not (e and index % e == e // 2):
            return super().generate(seed, index, tier, options)
        # large-k run: thousands of parses requested from a sentence with millions of derivations (8 words, three
        # categories that all combine): the n-best bookkeeping at a size no enumerating reference can follow; the
        # count of derivations comes from a polynomial dynamic program
        from depsim import gen
        rng = gen.stream(seed, 'C10:largek', index)
        nprng = gen.np_stream(rng)
        head = rng.random() < 0.5
        table = {f'Y{i} || Y{j}': [[f'Y{(i + 2 * j) % 3}', f'r{i}{j}', f'<r{i}{j}>', head],
                                   [f'Y{(i + 2 * j + 1) % 3}', f's{i}{j}', f'<s{i}{j}>', head]][:rng.choice([1, 2, 2])]
                 for i in range(3) for j in range(3)}
        sentences = []
        # every third such run asks for "all of them": k at and beyond 2^31 (legal for the unsigned field) on sentences
        # small enough for the complete list (thousands of derivations) to come back
        everything = rng.random() < 0.34
        for sid, n in enumerate([4, 3] if everything else [8, rng.choice([3, 4])]):
            tag, dep = gen.make_scores(nprng, rng, n, 3, rng.choice(['continuous', 'quantised']))
            sentences.append({'words': [f'k{sid}x{i}' for i in range(n)], 'tag': gen.arr_to_hex(tag),
                              'dep': gen.arr_to_hex(dep), 'style': 'continuous', 'rich': False, 'favoured': None})
        wspec = {'family': 'synth-left' if head else 'synth-right',
                 'grammar': {'kind': 'synth', 'heads': 'left' if head else 'right', 'binary': table, 'unary': {},
                             'categories': ['Y0', 'Y1', 'Y2'], 'roots': rng.sample(['Y0', 'Y1', 'Y2'], rng.choice([1, 3])),
                             'lang': 'en'},
                 'sentences': sentences}
        k = rng.choice([2147483647, 2147483648, 3000000000, 4294967295]) if everything else rng.choice([2000, 5000])
        op = {'op': 'call', 'batch': [1, 0], 'processes': 1, 'max_chunk_size': 20, 'unary_penalty': 0.1, 'beta': 1e-5,
              'use_beta': False, 'pruning_size': 3, 'nbest': k, 'max_step': 20000000, 'max_length': 250}
        return {'prop': self.id, 'seed': seed, 'index': index, 'world': wspec, 'ops': [op],
                'knobs': {'family': 'large_k', 'fault_class': 'none', 'nbest': k}, 'executor': 'inprocess'}

    def check_large_k(self, world, op, rec, stats):
        out = []
        cfg = session.cfg_of(op)
        k = cfg['nbest']
        penalty = session.f32(cfg['unary_penalty'])
        bump(stats, 'large_k_calls')
        if rec.exception is not None:
            return out
        for pos, sid in enumerate(op['batch']):
            resp = rec.responses[pos]
            p = rec.per_sentence[pos]
            n = world.n(sid)
            admitted = [set(range(len(world.categories))) for _ in range(n)]
            total = refparser.count_derivations(n, world.categories, admitted, world.memo, world.roots)
            best = refparser.viterbi(n, world.tag0[sid], world.dep0[sid], world.categories, admitted, world.memo,
                                     world.roots, penalty)
            bump(stats, 'evaluations')
            stats['counters']['largest_k'] = max(stats['counters'].get('largest_k', 0), k)
            stats['counters']['largest_derivation_count'] = max(stats['counters'].get('largest_derivation_count', 0), total)
            add_set(stats, 'nontrivial', digest(('large_k', sid, k, total)))
            cut = p is not None and p['pops'] >= p['max_step']
            got = 0 if refparser.is_placeholder(resp) else len(resp)
            expect = min(k, total)
            if not cut and got != expect:
                out.append(Violation(oracle='count', message=(
                    f'sentence {sid}: {got} parses returned for k={k}; the sentence has {total} derivations'),
                    signature={'kind': 'count_large_k'}))
                return out
            if got == 0:
                continue
            scores = [st.score for st in resp]
            mass = float(abs(world.tag0[sid]).max(axis=1).sum() + abs(world.dep0[sid]).max(axis=1).sum()) + 1.0
            tol = refparser.score_tolerance(mass)
            if any(b > a + tol for a, b in zip(scores, scores[1:])):
                out.append(Violation(oracle='ordered', message=f'sentence {sid}: {k}-best scores not non-increasing',
                                     signature={'kind': 'order'}))
                return out
            if len({refparser.canon_tree(st.tree) for st in resp}) != got:
                out.append(Violation(oracle='distinct', message=f'sentence {sid}: duplicate trees among {got}',
                                     signature={'kind': 'dup'}))
                return out
            if abs(scores[0] - best) > tol:
                out.append(Violation(oracle='first_is_one_best', message=(
                    f'sentence {sid}: first of {k}-best has score {scores[0]:.6f}, the best derivation has {best:.6f}'),
                    signature={'kind': 'first'}))
                return out
            for rank in sorted(set([0, 1, got // 2, got - 1])):
                st = resp[rank]
                want, m2 = refparser.tree_score(st.tree, world.tag0[sid], world.dep0[sid], world.cat_index, penalty)
                if abs(want - st.score) > refparser.score_tolerance(m2):
                    out.append(Violation(oracle='each_tree_scored', message=f'sentence {sid} rank {rank}: score mismatch',
                                         signature={'kind': 'score'}))
                    return out
        return out

    def check_call(self, world, op, rec, stats, spec):
        if spec.get('knobs', {}).get('family') == 'large_k':
            return self.check_large_k(world, op, rec, stats)
        out = []
        if rec.exception is not None or rec.ub or rec.unraisable:
            return out
        cfg = session.cfg_of(op)
        k = cfg['nbest']
        penalty = session.f32(cfg['unary_penalty'])

        def vio(oracle, message, **sig):
            out.append(Violation(oracle=oracle, message=message, signature=sig))
        for pos, sid in enumerate(op['batch']):
            if pos >= len(rec.responses):
                break
            p = rec.per_sentence[pos]
            if p is None:
                continue
            resp = rec.responses[pos]
            surely, maybe = session.admitted_sets(world, sid, cfg)
            if surely != maybe:
                bump(stats, 'skipped_tie_at_beam_boundary')
                continue
            try:
                derivs = refparser.enumerate_derivations(
                    world.n(sid), world.tag0[sid], world.dep0[sid], world.categories, surely,
                    world.memo, world.roots, penalty)
            except refparser.RefOverflow:
                bump(stats, 'reference_overflow')
                continue
            bump(stats, 'evaluations')
            cut = p['pops'] >= p['max_step']
            ref_scores = [d[0] for d in derivs]
            # the two reference models (exhaustive enumeration here, Viterbi chart in C01/C16) must agree
            vb = refparser.viterbi(world.n(sid), world.tag0[sid], world.dep0[sid], world.categories, surely,
                                   world.memo, world.roots, penalty)
            if (vb is None) != (not derivs) or (derivs and abs(vb - ref_scores[0]) > 1e-9 * max(1.0, abs(vb))):
                from depsim.env import HarnessError
                raise HarnessError(f'reference models disagree: viterbi {vb}, enumeration {ref_scores[:1]}')
            bump(stats, 'reference_models_cross_checked')
            if k >= 2 and len(derivs) >= 2:
                add_set(stats, 'nontrivial', digest((gen.arr_key(spec['world']['sentences'][sid]['tag']),
                                                     gen.arr_key(spec['world']['sentences'][sid]['dep']),
                                                     k, session.cfg_key(cfg), rec.contexts[pos])))
            if refparser.is_placeholder(resp):
                if not cut and derivs:
                    vio('count', f'sentence {sid}: failure reported but the reference has {len(derivs)} derivations',
                        kind='false_failure')
                    return out
                continue
            m = len(resp)
            mass = float(abs(world.tag0[sid]).max(axis=1).sum() + abs(world.dep0[sid]).max(axis=1).sum()) + 1.0
            tol = refparser.score_tolerance(mass)
            # distinct
            canon = [refparser.canon_tree(st.tree) for st in resp]
            if len(set(canon)) != m:
                vio('distinct', f'sentence {sid}: {m} trees returned, only {len(set(canon))} different', kind='dup')
                return out
            # ordered
            scores = [st.score for st in resp]
            for a, b in zip(scores, scores[1:]):
                if b > a + tol:
                    vio('ordered', f'sentence {sid}: scores not in non-increasing order: {scores}', kind='order')
                    return out
            # count
            expect = min(k, len(derivs))
            if m > k or (not cut and m != expect) or m > len(derivs):
                vio('count', f'sentence {sid}: {m} parses returned for k={k}; the reference has {len(derivs)} '
                    f'derivations (budget hit: {cut})', kind='count')
                return out
            # the m returned are the top m
            for i in range(m):
                if abs(scores[i] - ref_scores[i]) > tol:
                    vio('k_best_scores',
                        f'sentence {sid} (context {rec.contexts[pos]}): rank {i} has score {scores[i]:.6f}, '
                        f'the reference\'s rank {i} is {ref_scores[i]:.6f}; returned {["%.4f" % s for s in scores]} '
                        f'vs reference {["%.4f" % s for s in ref_scores[:m + 1]]}', kind='scores')
                    return out
            # each returned tree satisfies the validity and score-accounting properties
            for rank, st in enumerate(resp):
                complaints = refparser.check_licensed(st.tree, world.tokens[sid], world.categories, world.memo,
                                                      world.roots, surely)
                if complaints:
                    vio('each_tree_licensed', f'sentence {sid} rank {rank}: {complaints[0]}', kind='licensed')
                    return out
                try:
                    want, m2 = refparser.tree_score(st.tree, world.tag0[sid], world.dep0[sid], world.cat_index, penalty)
                except (KeyError, IndexError):
                    continue
                if abs(want - st.score) > refparser.score_tolerance(m2):
                    vio('each_tree_scored', f'sentence {sid} rank {rank}: reported {st.score!r}, recomputed {want!r}',
                        kind='score')
                    return out
            # first = the 1-best answer
            one = session.alone(world, sid, dict(cfg, nbest=1, max_step=20000))
            if one[0] == 'ok' and not refparser.is_placeholder(one[2]) and one[3] is not None \
                    and one[3]['pops'] < one[3]['max_step']:
                if abs(one[2][0].score - scores[0]) > tol:
                    vio('first_is_one_best', f'sentence {sid}: first of {k}-best has score {scores[0]:.6f}, the 1-best '
                        f'answer has {one[2][0].score:.6f}', kind='first')
                    return out
                bump(stats, 'first_equals_one_best_confirmed')
            if cut:
                bump(stats, 'probe:nbest_cut_by_budget_top_m_checked')
            if m >= 2 and abs(scores[0] - scores[-1]) <= tol:
                bump(stats, 'probe:tie_among_returned')
            bump(stats, 'nbest_lists_confirmed')
        return out


PROP = C10()
