"""C11 -- batch results align with inputs and do not depend on batch history,
chunking, worker count or completion order (primary simulation target)."""
from depsim import gen, refparser, session, simpool
from depsim.props.base import ParserSessionProp
from depsim.runner import Violation, add_set, bump, digest


class C11(ParserSessionProp):
    id = 'C11'
    fresh_alone = True      # 'parsed alone' means: in a process image that has seen no other call
    scale_every = {'quick': 300, 'thorough': 100}
    replica_rate = {'quick': 0.08, 'thorough': 0.25}
    big_batch_rate = {'quick': 0.05, 'thorough': 0.15}
    rule = ('case = (sentence, call context) response of the real depccg.parsing.run inside a multi-call '
            'session (shared argument objects; seeded batch = subset/permutation/repetition; processes 1-5 (1-40 in grid runs); '
            'max_chunk_size 0-21; SimPool schedule: worker assignment, service times, stalls of 90-600 simulated seconds, '
            'reordered completion (F5); a share of pooled calls runs in really forked workers or in worker interpreters '
            'started under another PYTHONHASHSEED (F6); faults F1 budget, F2 length, F3 no parse, F4 callback raises in '
            'parent or worker, F7 malformed input (10 kinds, incl. arrays of the wrong rank); every eighth run is a "grid" run: 80 '
            'calls covering one slice of the (batch size 1-64) x (processes 1-40) grid on one-word sentences, 256 consecutive '
            'run indices visit every combination once. '
            'Distinct = digest of (sentence digest, config, context signature, schedule signature); '
            'non-trivial = context differs from "alone" (batch > 1 or pooled) and the response is a parse '
            'or a placeholder next to a parse in the same call.')

    def generate(self, seed, index, tier, options):
        if index % 8 != 3:
            return super().generate(seed, index, tier, options)
        # "grid" run: chunk arithmetic over many (batch size, process count, chunk size) combinations on
        # one-word sentences (cheap), so that rare combinations -- more workers than sentences, remainders,
        # sizes around the default chunk size of 20 -- are visited systematically rather than by luck
        from depsim import gen
        rng = gen.stream(seed, 'C11:grid', index)
        nprng = gen.np_stream(rng)
        sentences = []
        for sid in range(6):
            tag, dep = gen.make_scores(nprng, rng, 1, 2, 'continuous')
            sentences.append({'words': [f'g{sid}'], 'tag': gen.arr_to_hex(tag), 'dep': gen.arr_to_hex(dep),
                              'style': 'continuous', 'rich': False, 'favoured': None})
        wspec = {'family': 'synth-left',
                 'grammar': {'kind': 'synth', 'heads': 'left', 'binary': {}, 'unary': {}, 'categories': ['A', 'B'],
                             'roots': ['A'], 'lang': 'en'},
                 'sentences': sentences}
        ops = []
        # systematic: the (n, processes) grid 1..64 x 1..40 is cut into slices of 80 combinations; grid run
        # number g covers slice g (mod 32), so 256 consecutive run indices visit every combination once
        g = index // 8
        for lin in range((g % 32) * 80, (g % 32) * 80 + 80):
            n = lin // 40 + 1
            p = lin % 40 + 1
            m = rng.choice([20 if n > 20 else 0, 20 if n > 20 else 1, 0, 5, 19, 21])
            start = rng.randrange(6)
            op = {'op': 'call', 'batch': [(start + k) % 6 for k in range(n)], 'processes': p, 'max_chunk_size': m,
                  'unary_penalty': 0.1, 'beta': 1e-5, 'use_beta': False, 'pruning_size': 2, 'nbest': 1,
                  'max_step': 1000, 'max_length': 250}
            if n > m:
                op['schedule'] = {'default_service': 0.01}
                if rng.random() < 0.3:
                    op['schedule']['start_delay'] = {str(i): round((70 - i) * 0.1, 2) for i in range(70)}
            ops.append(op)
        # two calls far outside the grid: hundreds of sentences, 90-260 worker processes (more than 100 chunks)
        for _ in range(2):
            n = rng.randint(100, 420)
            p = rng.choice([rng.randint(90, 260), n, rng.randint(2, 12)])
            start = rng.randrange(6)
            op = {'op': 'call', 'batch': [(start + k) % 6 for k in range(n)], 'processes': p,
                  'max_chunk_size': rng.choice([20, 20, 1, 0]), 'unary_penalty': 0.1, 'beta': 1e-5, 'use_beta': False,
                  'pruning_size': 2, 'nbest': 1, 'max_step': 1000, 'max_length': 250,
                  'schedule': {'default_service': 0.01}}
            if rng.random() < 0.5:
                op['schedule']['start_delay'] = {str(i): round((300 - i) * 0.05, 2) for i in range(300)}
            ops.append(op)
        return {'prop': self.id, 'seed': seed, 'index': index, 'world': wspec, 'ops': ops,
                'knobs': {'family': 'grid', 'fault_class': 'none', 'nbest': 1}, 'executor': 'inprocess'}

    def check_call(self, world, op, rec, stats, spec):
        if spec.get('knobs', {}).get('family') == 'grid':
            bump(stats, 'grid_calls')
            add_set(stats, 'grid_combinations', (len(op['batch']), op['processes'], op['max_chunk_size']))
        out = []
        fault = op.get('fault') or {}
        batch = op['batch']
        cfg = session.cfg_of(op)

        def vio(oracle, message, **sig):
            out.append(Violation(oracle=oracle, message=message, signature=sig))

        # -- liveness: the call must return
        if rec.exception and rec.exception[0] in ('SimDeadlock', 'SimLivelock'):
            vio('returns', f'{rec.exception[0]}: {rec.exception[1]}', kind=rec.exception[0])
            return out

        # -- F7: malformed input must be rejected before any parsing
        if fault.get('kind') == 'F7':
            bump(stats, 'evaluations')
            add_set(stats, 'nontrivial', digest(('F7', fault['what'], fault['pos'], len(batch),
                                                 op.get('max_chunk_size'), op.get('processes'))))
            calls = sum(c.calls for c in rec.counting)
            parses = sum(1 for ev in rec.trace if ev[0] == 'parse')
            if rec.exception is None:
                vio('rejects_misfit', f'malformed input ({fault["what"]} at position {fault["pos"]}) was accepted',
                    what=fault['what'])
            elif calls or rec.pool['submitted'] or parses:
                vio('rejects_before_parsing',
                    f'malformed input ({fault["what"]}) rejected only after {calls} grammar calls, '
                    f'{rec.pool["submitted"]} submitted tasks, {parses} searches', what=fault['what'])
            return out

        # -- reference: every sentence alone, same configuration
        alone = [session.alone(world, s, cfg) for s in batch]
        bad = [a for a in alone if a[0] == 'bad']
        if bad:
            vio('one_result_per_sentence', f'a sentence parsed alone: {bad[0][1]}', got='alone')
            return out

        if fault.get('kind') == 'F4':
            bump(stats, 'evaluations')
            if rec.exception is not None:
                if 'injected grammar fault' not in rec.exception[1]:
                    vio('fault_surfaces', f'callback fault turned into {rec.exception}', exc=rec.exception[0])
                return out
            # fault did not fire, or the call swallowed it: the result must be entirely correct
        elif rec.exception is not None:
            # fault-free call on well-formed input raised: legitimate only if the grammar callable itself
            # raises for some category pair the sentences can reach (then the property's premise fails)
            bump(stats, 'evaluations')
            if not _grammar_raises(world, batch):
                sig = {'exc': rec.exception[0]}
                if rec.exception[0] == 'MaybeEncodingError' and 'RecursionError' in rec.exception[1]:
                    # a worker could not pickle its result list: say how deep the deepest derivation is
                    depth = max([session.alone_depth(a) for a in alone if a[0] == 'ok'] or [0])
                    sig = {'exc': 'MaybeEncodingError', 'reason': 'RecursionError while pickling the result of a worker',
                           'deepest_derivation': 'at least 250 levels' if depth >= 250 else f'{depth} levels'}
                vio('returns', f'call raised {rec.exception[0]}: {rec.exception[1][:200]}', **sig)
            else:
                bump(stats, 'calls_excused_grammar_raises')
            return out

        if any(a[0] == 'exc' for a in alone):
            # the batch returned although a member alone raises
            bad = [a[1] for a in alone if a[0] == 'exc'][0]
            if not _grammar_raises(world, batch):
                vio('history_independent', f'batch returned but a member sentence alone raises {bad}', exc=bad[0])
            return out

        res = rec.responses
        if not isinstance(res, list) or len(res) != len(batch):
            vio('one_result_per_sentence',
                f'{len(batch)} sentences in, {len(res) if hasattr(res, "__len__") else type(res)} result lists out',
                got=('short' if hasattr(res, '__len__') and len(res) < len(batch) else 'long'))
            return out

        pooled = bool(rec.pool['pools'])
        any_parse = any(not refparser.is_placeholder(r) for r in res)
        for pos, sid in enumerate(batch):
            resp = res[pos]
            bump(stats, 'evaluations')
            canon = refparser.canon_response(resp)
            placeholder = refparser.is_placeholder(resp)
            ctx = rec.contexts[pos]
            nontrivial = (len(batch) > 1 or pooled) and (not placeholder or any_parse)
            if nontrivial:
                add_set(stats, 'nontrivial', digest((gen.arr_key(spec['world']['sentences'][sid]['tag'])[:64], sid,
                                                     session.cfg_key(cfg), ctx, rec.schedule_sig[:3])))
            # alignment: the response carries this sentence's tokens
            if not placeholder:
                toks = [leaf.children[0] for st in resp for leaf in st.tree.leaves]
                want = world.tokens[sid] * len(resp)
                if [t.get('word') for t in toks] != [t.get('word') for t in want]:
                    vio('aligned', f'position {pos} (sentence {sid}) carries words '
                        f'{[t.get("word") for t in toks][:8]}', where='tokens')
                    break
            # the length limit is the configured one: longer sentences are skipped, others are searched
            p = rec.per_sentence[pos]
            if rec.contexts[pos] is not None:
                too_long = world.n(sid) > cfg['max_length']
                if too_long and (p is not None or not placeholder):
                    vio('length_limit', f'sentence {sid} has {world.n(sid)} tokens, max_length={cfg["max_length"]}, '
                        f'but it was searched / parsed', kind='not_skipped')
                    break
                if not too_long and p is None:
                    vio('length_limit', f'sentence {sid} has {world.n(sid)} tokens, max_length={cfg["max_length"]}, '
                        f'but it was skipped as too long', kind='skipped')
                    break
            # history / schedule independence
            if not session.responses_equal(canon, alone[pos][1]):
                a_placeholder = session.alone_is_placeholder(alone[pos])
                kind = ('placeholder_vs_parse' if placeholder != a_placeholder else
                        'different_parse')
                if placeholder and not a_placeholder:
                    kind = 'lost_parse'
                elif a_placeholder and not placeholder:
                    kind = 'unexpected_parse'
                vio('history_independent',
                    f'position {pos} (sentence {sid}, context {ctx}) differs from the sentence parsed alone: '
                    f'{_brief(canon)} vs alone {_brief(alone[pos][1])}', kind=kind)
                break
            if placeholder:
                bump(stats, 'placeholders_checked')
            else:
                bump(stats, 'parses_checked')
        if any(refparser.is_placeholder(r) for r in res) and any_parse:
            bump(stats, 'probe:failure_and_success_in_one_call')
        return out


def _depth(tree):
    """levels of Tree nodes on the longest root-to-leaf path (iterative)"""
    best, stack = 0, [(tree, 1)]
    while stack:
        node, d = stack.pop()
        best = max(best, d)
        if not node.is_leaf:
            stack.extend((c, d + 1) for c in node.children)
    return best


def _grammar_raises(world, batch):
    """does the grammar callable itself raise for some category pair reachable from
    the sentences' tags?  (evaluated with the reference chart, all tags admitted)"""
    if world.spec['grammar'].get('kind') in ('synth', 'explosive'):
        return False      # table lookups and arithmetic on category names: total functions
    for sid in sorted(set(batch)):
        n = world.n(sid)
        admitted = [set(range(len(world.categories))) for _ in range(n)]
        try:
            refparser.viterbi(n, world.tag0[sid], world.dep0[sid], world.categories, admitted,
                              world.memo, world.roots, 0.1)
        except refparser.RefOverflow:
            continue
        except Exception:
            return True
    return False


def real_pool_validation(prop, seed, want):
    """model validation (not the deciding step): replay generated fault-free pooled
    calls on the REAL multiprocessing.Pool with the REAL time.sleep and require the
    same responses as under SimPool"""
    import depccg.parsing as P
    from depccg.types import ScoringResult
    jobs = []
    index = 10 ** 6
    while len(jobs) < want and index < 10 ** 6 + 40 * want:
        spec = prop.generate(seed, index, 'quick', {})
        index += 1
        for oi, op in enumerate(spec['ops']):
            if op.get('fault') or len(op['batch']) <= op.get('max_chunk_size', 20):
                continue
            jobs.append((spec, oi))
            break

    out = {'calls': 0, 'equal': 0, 'sentences': 0}
    # simulated and real executions strictly one after the other (the seams are module attributes)
    for spec, oi in jobs:
        world = session.World(spec['world'])
        op = spec['ops'][oi]
        sim_rec = prop.run_call(world, op, 'inprocess')
        cfg = session.cfg_of(op)
        doc = [world.tokens[s] for s in op['batch']]
        scores = [ScoringResult(world.tag[s], world.dep[s]) for s in op['batch']]
        try:
            real = P.run(doc, scores, world.categories, world.roots, world.binary, world.unary,
                         processes=op.get('processes', 2), max_chunk_size=op.get('max_chunk_size', 20), **cfg)
            real_c = [refparser.canon_response(r) for r in real]
        except Exception as e:  # noqa
            real_c = ('exc', type(e).__name__)
        sim_c = ([refparser.canon_response(r) for r in sim_rec.responses] if sim_rec.responses is not None
                 else ('exc', sim_rec.exception[0]))
        if isinstance(real_c, list) and isinstance(sim_c, list):
            same = len(real_c) == len(sim_c) and all(session.responses_equal(a, b) for a, b in zip(real_c, sim_c))
        else:
            same = real_c == sim_c
        out['calls'] += 1
        out['equal'] += 1 if same else 0
        out['sentences'] += len(op['batch'])
    return out


def _brief(canon):
    out = []
    for tree, score in canon[:2]:
        out.append(f'{_tree_str(tree)}:{score:.4f}')
    return '[' + ', '.join(out) + (', ...' if len(canon) > 2 else '') + ']'


def _evidence_extra(self, stats):
    out = {}
    try:
        n = 16 if self._tier == 'thorough' else 3
        out['real_pool_cross_check'] = real_pool_validation(self, 0, n)
    except Exception as e:  # noqa
        out['real_pool_cross_check'] = {'error': f'{type(e).__name__}: {e}'}
    return out


C11.evidence_extra = _evidence_extra
C11._tier = 'quick'


def _tree_str(t, limit=40):
    """bracketing of a flat pre-order canonical tree (refparser.canon_tree), first `limit` nodes"""
    out, todo = [], []       # todo: remaining children counts of the open nodes
    for k, node in enumerate(t):
        if k >= limit:
            out.append(' ...')
            break
        if node[0] == 'L':
            out.append(f' {node[1]}')
        else:
            out.append(f' ({node[1]}<{node[2]}{"L" if node[4] else "R"}>')
            todo.append(node[5])
            continue
        while todo:
            todo[-1] -= 1
            if todo[-1] > 0:
                break
            todo.pop()
            out.append(')')
    return ''.join(out).strip()


PROP = C11()
