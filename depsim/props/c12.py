"""C12 -- rule labels and head directions on trees are those the grammar assigned.
Parser half: response invariant of the simulated parse service.
Reader half: downstream stage (write with the real printers, read back with the
real treebank readers under the process-global language, which the simulator
switches between creating and consuming the lazy readers)."""
import copy
import os
import shutil
import tempfile

from depsim import env, refparser, session
from depsim.props.base import ParserSessionProp, FAMILIES_ALL
from depsim.runner import Violation, add_set, bump, digest

READABLE = {'en': ['auto', 'xml', 'jigg_xml', 'ptb'], 'ja': ['auto', 'jigg_xml', 'ptb']}
HAS_HEAD_FIELD = {'auto'}


class C12(ParserSessionProp):
    id = 'C12'
    stress_every = {'quick': 400, 'thorough': 150}
    families = FAMILIES_ALL
    max_len = 8
    fault_classes = ('none', 'inband')
    rich_tokens = True
    rule = ('parser half: case = one unary/binary node of a tree returned by the real parser in a simulated '
            'session; its (label, symbol, head direction) must be that of a fresh grammar result for its children '
            'with the node\'s category.  reader half: every parse of en/ja sessions is printed (auto, xml, jigg_xml, '
            'ptb) and read back with the real readers while the simulator sets/switches the global language '
            'before/after creating the lazy reader; each binary node must carry the label (and head, where the '
            'format has no head field) of the active grammar\'s rule deriving it, else unk.  Distinct = digest of '
            '(children categories, node category, label, context/format); non-trivial = the children pair has >= 2 '
            'grammar results (parser half) / the node is binary and derivable (reader half).')

    def check_call(self, world, op, rec, stats, spec):
        out = []
        if rec.ub:
            out.append(Violation(oracle='rule_index_in_range',
                                 message=f'finalizer indexed the cached result list out of range: {rec.ub[0]}',
                                 signature={'kind': 'ub'}))
            return out
        if rec.exception is not None or rec.unraisable:
            return out
        for pos, sid in enumerate(op['batch']):
            if pos >= len(rec.responses):
                break
            resp = rec.responses[pos]
            if refparser.is_placeholder(resp):
                continue
            for st in resp:
                complaints, nodes, multi = refparser.check_labels(st.tree, world.memo)
                bump(stats, 'evaluations', nodes)
                bump(stats, 'nodes_with_several_results', multi)
                if multi:
                    add_set(stats, 'nontrivial', digest((refparser.canon_tree(st.tree), rec.contexts[pos])))
                if rec.contexts[pos] and rec.contexts[pos][2] == 'warm' and multi:
                    bump(stats, 'probe:multi_result_node_resolved_against_cache_warmed_earlier')
                if complaints:
                    kind = complaints[0].split(' ')[0]
                    out.append(Violation(
                        oracle='parser_labels',
                        message=f'sentence {sid} (context {rec.contexts[pos]}): {complaints[0]}',
                        signature={'kind': kind}))
                    return out
            if not hasattr(world, 'parsed'):
                world.parsed = []
            if len(world.parsed) < 12:
                world.parsed.append(resp)
        return out

    # ------------------------------------------------------------ reader half
    def execute(self, spec, executor_mode=None):
        result = super().execute(spec, executor_mode)
        if result['violations']:
            return result
        if spec['world']['grammar']['kind'] != 'real' or not getattr(self._last_world, 'parsed', []):
            if spec.get('many_parents', {}).get('big'):
                # the large same-children file does not depend on what this run parsed
                vs, log3 = self.many_parents_stage(spec['world']['grammar'].get('lang', 'en'), spec['many_parents'], result['stats'])
                for v in vs:
                    v['property'] = self.id
                    v['op_index'] = len(spec['ops'])
                result['violations'].extend(vs)
                result['log_digest'] = digest((result['log_digest'], log3))
            return result
        # re-run the calls to collect the responses (cheap: worlds are small) -- done inside super via world.parsed
        world = self._last_world
        parsed = getattr(world, 'parsed', [])
        if not parsed:
            return result
        lang = world.g['lang']
        parsed = parsed + self.twin_trees(parsed, lang)
        plan = spec.get('reader_plan') or []
        vs, log = self.reader_stage(parsed, lang, plan, result['stats'])
        if not vs and (spec.get('reader_interleave') or {}).get('readers'):
            vs, log2 = self.interleave_stage(parsed, lang, spec['reader_interleave'], result['stats'])
            log = log + log2
        if not vs and spec.get('many_parents'):
            vs, log3 = self.many_parents_stage(lang, spec['many_parents'], result['stats'])
            log = log + log3
        for v in vs:
            v['property'] = self.id
            v['op_index'] = len(spec['ops'])
        result['violations'].extend(vs)
        result['log_digest'] = digest((result['log_digest'], log))
        return result

    def many_parents_stage(self, lang, mp, stats):
        """one treebank file with thousands of two-leaf trees over the SAME pair of children and different parent
        categories (every category of the shipped seen rules, the grammar's own results among them): whatever a
        reader remembers per pair of children must not leak from one parent to another"""
        import random as _random
        from depccg.cat import Category
        from depccg.tree import Tree, ScoredTree
        from depccg.types import Token
        from depccg.printer import to_string
        from depccg.lang import set_global_language_to, get_global_language
        from depccg.tools import reader as R
        from depccg.grammar import en, ja
        from depsim import gen
        variant = 'ja' if lang == 'ja' else mp['variant']
        binary = {'en': en.apply_binary_rules, 'ja': ja.apply_binary_rules}[lang]
        pairs, _, _ = gen.seen_index(variant)
        rng = _random.Random(mp['seed'])
        x, y = rng.choice(pairs)
        if mp.get('big'):
            best = 0
            for a, b in rng.sample(pairs, 400):
                try:
                    k = len({str(r.cat) for r in binary(Category.parse(a), Category.parse(b))})
                except Exception:
                    continue
                if k > best:
                    best, x, y = k, a, b
        cx, cy = Category.parse(x), Category.parse(y)
        names = sorted({c for p in pairs for c in p})
        rng.shuffle(names)
        parents = [r.cat for r in binary(cx, cy)] + [Category.parse(c) for c in names[:mp['n']]]
        if mp['n'] > len(names):
            # more parents than the shipped rules have categories: numbered features on an atom (never derivable)
            atom = 'S' if lang == 'en' else 'NP'
            parents += [Category.parse(f'{atom}[q{i}]') for i in range(mp['n'] - len(names))]
        rng.shuffle(parents)
        doc = [[ScoredTree(Tree.make_binary(p, Tree.make_terminal(Token.of_word('l'), cx),
                                            Tree.make_terminal(Token.of_word('r'), cy), 'x', '<x>', True), -1.0)]
               for p in parents]
        fmt = mp['format'] if mp['format'] in READABLE.get(lang, []) else READABLE[lang][0]
        readers = {'auto': R.read_auto, 'xml': R.read_xml, 'jigg_xml': R.read_jigg_xml, 'ptb': R.read_ptb}
        suffix = {'auto': '.auto', 'xml': '.xml', 'jigg_xml': '.jigg.xml', 'ptb': '.ptb'}
        saved = get_global_language()
        scratch_root = os.path.join(env.VERIF, '.build', 'scratch')
        os.makedirs(scratch_root, exist_ok=True)
        d = tempfile.mkdtemp(dir=scratch_root)
        out, log = [], []
        try:
            set_global_language_to(lang)
            try:
                text = to_string(doc, fmt)
            except Exception as e:  # noqa
                return out, [('many_parents', 'render', type(e).__name__)]
            path = os.path.join(d, 'many' + suffix[fmt])
            with open(path, 'w', encoding='utf-8') as f:
                f.write(text)
            try:
                items = list(readers[fmt](path))
            except Exception as e:  # noqa
                return out, [('many_parents', 'read', type(e).__name__)]
            bump(stats, 'many_parents_files')
            stats['counters']['largest_same_children_file'] = max(stats['counters'].get('largest_same_children_file', 0), len(items))
            log.append(('many_parents', fmt, len(items)))
            memo = {}

            def binary_memo(a, b):
                k = (a, b)
                if k not in memo:
                    memo[k] = binary(a, b)
                return memo[k]
            for item in items:
                v = self.check_read_tree(item.tree, binary_memo, fmt, lang, stats)
                if v is not None:
                    v['message'] = f'in a file of {len(items)} trees over one pair of children: ' + v['message']
                    out.append(v)
                    break
        finally:
            set_global_language_to(saved)
            shutil.rmtree(d, ignore_errors=True)
        return out, log

    def generate(self, seed, index, tier, options):
        spec = super().generate(seed, index, tier, options)
        from depsim import gen
        rng = gen.stream(seed, self.id + ':reader', index)
        lang = spec['world']['grammar'].get('lang', 'en')
        plan = []
        for fmt in READABLE.get(lang, []):
            r = rng.random()
            if r < 0.6:
                plan.append({'format': fmt, 'create_lang': lang, 'consume_lang': lang})
            elif r < 0.8:
                other = 'ja' if lang == 'en' else 'en'
                plan.append({'format': fmt, 'create_lang': other, 'consume_lang': lang})
            else:
                other = 'ja' if lang == 'en' else 'en'
                plan.append({'format': fmt, 'create_lang': lang, 'consume_lang': other})
        for step in plan:
            step['guess_extension'] = rng.random() < 0.3
        spec['reader_plan'] = plan
        # several live readers at once, each consumed under its own language, stepped in a seeded interleaving
        inter = []
        if rng.random() < 0.5:
            for _ in range(rng.randint(2, 3)):
                inter.append({'format': rng.choice(READABLE.get(lang, ['auto'])), 'lang': rng.choice(['en', 'ja'])})
        spec['reader_interleave'] = {'readers': inter, 'seed': rng.getrandbits(30)}
        mrng = gen.stream(seed, self.id + ':manyparents', index)
        if mrng.random() < 0.02:
            spec['many_parents'] = {'variant': mrng.choice(['en', 'en_rebank']), 'seed': mrng.getrandbits(30),
                                    'n': 3000, 'format': mrng.choice(['auto', 'ptb', 'xml'])}
        if tier == 'thorough' and index % 3000 == 1500:
            # thorough tier only (two to three minutes per file): 150,000 trees over the pair of children that has the
            # most derivable parents, so that a table of 2^18 remembered lookups is more than half full of them
            spec['many_parents'] = {'variant': mrng.choice(['en', 'en_rebank']), 'seed': mrng.getrandbits(30),
                                    'n': 150000, 'format': 'auto', 'big': True}
        # F11: for one file of every third run the reading is repeated under every stack budget between "fails at
        # once" and "succeeds", i.e. the interpreter's recursion limit is hit at every possible point of the reader
        srng = gen.stream(seed, self.id + ':stack', index)
        if plan and srng.random() < 0.34:
            srng.choice(plan)['stack_scan'] = True
        return spec

    def twin_trees(self, parsed, lang):
        """grammar-licensed two-leaf derivations that differ from nodes of the parsed trees only in variable / nb
        features of one child (e.g. the CCGbank-style S/(S\\NP) next to the parser's S[X]/(S[X]\\NP)): files that mix
        gold and parser output contain both, and anything keyed by a feature-blind view of the children confuses them"""
        from depccg.tree import Tree, ScoredTree
        from depccg.types import Token
        from depccg.grammar import en, ja
        binary = {'en': en.apply_binary_rules, 'ja': ja.apply_binary_rules}[lang]
        out, seen = [], set()

        def rec(node):
            if node.is_leaf or len(out) >= 8:
                return
            if len(node.children) == 2:
                l, r = node.children
                for a, b in ((l.cat.clear_features('X'), r.cat), (l.cat, r.cat.clear_features('X')),
                             (l.cat.clear_features('X', 'nb'), r.cat.clear_features('X', 'nb'))):
                    if (a, b) != (l.cat, r.cat) and (a, b) not in seen:
                        seen.add((a, b))
                        try:
                            res = binary(a, b)
                        except Exception:
                            res = []
                        for rr in res[:1]:
                            t = Tree.make_binary(rr.cat, Tree.make_terminal(Token.of_word('tl'), a),
                                                 Tree.make_terminal(Token.of_word('tr'), b), rr.op_string, rr.op_symbol,
                                                 rr.head_is_left)
                            out.append([ScoredTree(t, -1.0)])
            for c in node.children:
                rec(c)
        for resp in parsed:
            for st in resp:
                rec(st.tree)
        return out

    def reader_stage(self, parsed, lang, plan, stats):
        from depccg.printer import to_string
        from depccg.lang import set_global_language_to, get_global_language
        from depccg.tools import reader as R
        from depccg.grammar import en, ja
        grammar = {'en': en.apply_binary_rules, 'ja': ja.apply_binary_rules}
        readers = {'auto': R.read_auto, 'xml': R.read_xml, 'jigg_xml': R.read_jigg_xml, 'ptb': R.read_ptb}
        suffix = {'auto': '.auto', 'xml': '.xml', 'jigg_xml': '.jigg.xml', 'ptb': '.ptb'}
        out = []
        log = []
        saved_lang = get_global_language()
        scratch_root = os.path.join(env.VERIF, '.build', 'scratch')
        os.makedirs(scratch_root, exist_ok=True)
        d = tempfile.mkdtemp(dir=scratch_root)
        try:
            for step in plan:
                fmt = step['format']
                results = copy.deepcopy(parsed)      # rendering must not disturb later stages (C18's subject)
                set_global_language_to(lang)
                try:
                    text = to_string(results, fmt)
                except Exception as e:  # noqa  (C19's subject)
                    bump(stats, 'reader_stage_render_failed')
                    log.append((fmt, 'render', type(e).__name__))
                    continue
                path = os.path.join(d, 'out' + suffix[fmt])
                with open(path, 'w', encoding='utf-8') as f:
                    f.write(text)
                set_global_language_to(step['create_lang'])
                if step.get('guess_extension'):
                    it = R.read_trees_guess_extension(path)
                    bump(stats, 'probe:reader_chosen_by_file_extension')
                else:
                    it = readers[fmt](path)
                set_global_language_to(step['consume_lang'])
                if step['create_lang'] != step['consume_lang']:
                    bump(stats, 'fault:F9_language_switched_between_create_and_consume')
                active = step['consume_lang']
                try:
                    items = list(it)
                except Exception as e:  # noqa  (round-trip failures are C08/C15/C20's subject)
                    bump(stats, 'reader_stage_read_failed:' + fmt)
                    log.append((fmt, 'read', type(e).__name__))
                    continue
                bump(stats, 'files_read')
                log.append((fmt, len(items)))
                for item in items:
                    v = self.check_read_tree(item.tree, grammar[active], fmt, active, stats)
                    if v is not None:
                        out.append(v)
                        return out, log
                if step.get('stack_scan'):
                    v = self.stack_scan(path, fmt, readers, step, grammar, stats, log)
                    if v is not None:
                        out.append(v)
                        return out, log
        finally:
            set_global_language_to(saved_lang)
            shutil.rmtree(d, ignore_errors=True)
        return out, log

    def stack_scan(self, path, fmt, readers, step, grammar, stats, log):
        """F11 (stack exhaustion at an arbitrary point): the file is read again under every recursion limit from a few
        frames above the current depth upwards until a reading succeeds three times in a row.  Each reading either
        raises (RecursionError, or whatever the reader turns it into) or yields trees -- and trees that are yielded
        must be labelled by the grammar like any others"""
        import sys
        from depccg.lang import set_global_language_to
        from depccg.tools import reader as R
        depth = 0
        fr = sys._getframe()
        while fr is not None:
            depth += 1
            fr = fr.f_back
        limit0 = sys.getrecursionlimit()
        active = step['consume_lang']
        ok_in_a_row = 0
        try:
            for extra in range(6, 400):
                set_global_language_to(step['create_lang'])
                sys.setrecursionlimit(depth + extra)
                try:
                    it = R.read_trees_guess_extension(path) if step.get('guess_extension') else readers[fmt](path)
                    set_global_language_to(active)
                    items = list(it)
                except RecursionError:
                    sys.setrecursionlimit(limit0)
                    bump(stats, 'fault:F11_reader_hit_the_stack_limit')
                    ok_in_a_row = 0
                    continue
                except Exception as e:  # noqa
                    sys.setrecursionlimit(limit0)
                    bump(stats, 'fault:F11_reader_hit_the_stack_limit')
                    bump(stats, 'stack_limit_surfaced_as:' + type(e).__name__)
                    ok_in_a_row = 0
                    continue
                sys.setrecursionlimit(limit0)
                bump(stats, 'readings_under_a_stack_budget')
                for item in items:
                    v = self.check_read_tree(item.tree, grammar[active], fmt, active, stats)
                    if v is not None:
                        v['message'] = (f'read under a stack budget of {extra} frames (other budgets raise RecursionError or '
                                        f'read correctly): ' + v['message'])
                        v['signature'] = dict(v['signature'], after='F11')
                        log.append((fmt, 'stack_scan', extra, 'bad'))
                        return v
                ok_in_a_row += 1
                if ok_in_a_row >= 3:
                    log.append((fmt, 'stack_scan', extra))
                    break
        finally:
            sys.setrecursionlimit(limit0)
        return None

    def interleave_stage(self, parsed, lang, inter, stats):
        """S7 as a schedule: k lazy readers are alive at once; before every next() the simulator sets the
        global language to that reader's own language, so from each reader's point of view the language is
        constant from creation to exhaustion -- its trees must be labelled by that language's grammar"""
        import random as _random
        from depccg.printer import to_string
        from depccg.lang import set_global_language_to, get_global_language
        from depccg.tools import reader as R
        from depccg.grammar import en, ja
        grammar = {'en': en.apply_binary_rules, 'ja': ja.apply_binary_rules}
        readers = {'auto': R.read_auto, 'xml': R.read_xml, 'jigg_xml': R.read_jigg_xml, 'ptb': R.read_ptb}
        suffix = {'auto': '.auto', 'xml': '.xml', 'jigg_xml': '.jigg.xml', 'ptb': '.ptb'}
        out, log = [], []
        saved = get_global_language()
        scratch_root = os.path.join(env.VERIF, '.build', 'scratch')
        os.makedirs(scratch_root, exist_ok=True)
        d = tempfile.mkdtemp(dir=scratch_root)
        rng = _random.Random(inter['seed'])
        try:
            live = []
            for k, rd in enumerate(inter['readers']):
                fmt = rd['format']
                set_global_language_to(lang)
                try:
                    text = to_string(copy.deepcopy(parsed), fmt)
                except Exception:
                    continue
                path = os.path.join(d, f'r{k}' + suffix[fmt])
                with open(path, 'w', encoding='utf-8') as f:
                    f.write(text)
                set_global_language_to(rd['lang'])
                live.append({'it': iter(readers[fmt](path)), 'lang': rd['lang'], 'fmt': fmt, 'n': 0})
            if len({r['lang'] for r in live}) >= 2:
                bump(stats, 'probe:live_readers_under_different_languages')
            while live:
                r = rng.choice(live)
                set_global_language_to(r['lang'])
                try:
                    item = next(r['it'])
                except StopIteration:
                    live.remove(r)
                    continue
                except Exception as e:  # noqa  (round-trip failures are not this property's subject)
                    live.remove(r)
                    log.append((r['fmt'], 'read', type(e).__name__))
                    continue
                r['n'] += 1
                bump(stats, 'interleaved_reader_steps')
                log.append((r['fmt'], r['lang'], r['n']))
                v = self.check_read_tree(item.tree, grammar[r['lang']], r['fmt'], r['lang'], stats)
                if v is not None:
                    v['message'] = 'with interleaved live readers: ' + v['message']
                    v['signature'] = dict(v['signature'], interleaved=True)
                    out.append(v)
                    return out, log
        finally:
            set_global_language_to(saved)
            shutil.rmtree(d, ignore_errors=True)
        return out, log

    def check_read_tree(self, tree, binary, fmt, active, stats):
        found = [None]

        def rec(node):
            if found[0] is not None or node.is_leaf:
                return
            if len(node.children) == 2:
                l, r = node.children
                results = binary(l.cat, r.cat)
                match = [x for x in results if x.cat == node.cat]
                bump(stats, 'evaluations')
                if match:
                    add_set(stats, 'nontrivial', digest((str(l.cat), str(r.cat), str(node.cat), fmt, active)))
                    ok_labels = {(x.op_string, x.op_symbol) for x in match}
                    if (node.op_string, node.op_symbol) not in ok_labels:
                        found[0] = Violation(
                            oracle='reader_labels',
                            message=(f'{fmt} reader under language {active}: node ({l.cat}, {r.cat}) -> {node.cat} '
                                     f'labelled ({node.op_string!r},{node.op_symbol!r}); grammar derives it by {sorted(ok_labels)}'),
                            signature={'format': fmt, 'kind': 'label'})
                        return
                    if fmt not in HAS_HEAD_FIELD:
                        heads = {bool(x.head_is_left) for x in match
                                 if (x.op_string, x.op_symbol) == (node.op_string, node.op_symbol)}
                        if bool(node.head_is_left) not in heads:
                            found[0] = Violation(
                                oracle='reader_labels',
                                message=(f'{fmt} reader under language {active}: node ({l.cat}, {r.cat}) -> {node.cat} '
                                         f'has head_is_left={node.head_is_left}, the rule says {sorted(heads)}'),
                                signature={'format': fmt, 'kind': 'head'})
                            return
                else:
                    bump(stats, 'probe:underivable_node_read')
                    if (node.op_string, node.op_symbol) != ('unk', '<unk>'):
                        found[0] = Violation(
                            oracle='reader_labels',
                            message=(f'{fmt} reader: underivable node ({l.cat}, {r.cat}) -> {node.cat} labelled '
                                     f'({node.op_string!r},{node.op_symbol!r}) instead of unk'),
                            signature={'format': fmt, 'kind': 'unk'})
                        return
            for c in node.children:
                rec(c)
        rec(tree)
        return found[0]


PROP = C12()
