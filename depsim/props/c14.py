"""C14 -- rule application is pure, total and reproducible in every process and
under every string-hash seed; filters only remove (primary: replicas never diverge)."""
import atexit
import copy
import json
import os
import re
import subprocess
import sys

from depsim import env, gen, grammars
from depsim.runner import Violation, add_set, bump, digest, new_stats

HASHSEED_POOL = [0, 1, 2, 3, 4, 5, 7, 11, 42, 1234, 99991, 4294967295]

_servers = {}


def _server(hashseed):
    key = (os.getpid(), hashseed)
    srv = _servers.get(key)
    if srv is not None and srv.poll() is None:
        return srv
    env_ = dict(os.environ)
    env_['PYTHONHASHSEED'] = str(hashseed)
    env_.pop('DEPSIM_HARNESS_HASHSEED', None)
    srv = subprocess.Popen(
        [sys.executable, os.path.join(env.VERIF, 'depsim', 'replica_server.py')],
        stdin=subprocess.PIPE, stdout=subprocess.PIPE, stderr=subprocess.DEVNULL,
        env=env_, text=True, bufsize=1)
    hello = json.loads(srv.stdout.readline())
    srv.hello = hello
    _servers[key] = srv
    return srv


def _shutdown():
    for (pid, _), srv in list(_servers.items()):
        if pid == os.getpid() and srv.poll() is None:
            try:
                srv.stdin.write(json.dumps({'cmd': 'quit'}) + '\n')
                srv.stdin.flush()
                srv.wait(timeout=2)
            except Exception:
                srv.kill()


atexit.register(_shutdown)

EN_ATOMS = ['S', 'NP', 'N', 'PP']
EN_FEATS = ['', '[dcl]', '[conj]', '[b]', '[ng]', '[nb]', '[X]', '[X]', '[pss]']


def _synth_var_pair(rng):
    """functor with several occurrences of a feature variable + an argument
    binding them to different values"""
    def atom(feat=None):
        return rng.choice(EN_ATOMS) + (feat if feat is not None else rng.choice(EN_FEATS))
    a = atom('[X]')
    b1, b2 = rng.choice(EN_ATOMS), rng.choice(EN_ATOMS)
    slash = rng.choice(['/', '\\'])
    arg_var = f'{b1}[X]{slash}{b2}[X]'
    f1, f2 = rng.sample(['[dcl]', '[conj]', '[b]', '[ng]', '[pss]', '[nb]', ''], 2)
    arg_val = f'{b1}{f1}{slash}{b2}{f2}'
    shape = rng.choice(['fa', 'ba', 'fc', 'bx'])
    if shape == 'fa':
        return f'{a}/({arg_var})', arg_val
    if shape == 'ba':
        return arg_val, f'{a}\\({arg_var})'
    if shape == 'fc':
        c = atom()
        return f'{a}/({arg_var})', f'({arg_val})/{c}'
    c = atom()
    return f'({arg_val})/{c}', f'{a}\\({arg_var})'


CONCRETE = ['[dcl]', '[conj]', '[b]', '[ng]', '[pss]', '[expl]', '[thr]', '[to]']


def _synth_primer(rng):
    """a pair whose unification binds a feature variable and THEN fails on a clash of concrete features"""
    a = rng.choice(EN_ATOMS) + '[X]'
    b1, b2 = rng.choice(EN_ATOMS), rng.choice(EN_ATOMS)
    sl = rng.choice(['/', '\\'])
    f1, g2 = rng.sample(CONCRETE, 2)
    g1 = rng.choice(CONCRETE)
    if rng.random() < 0.5:
        return f'{a}/({b1}[X]{sl}{b2}{f1})', f'{b1}{g1}{sl}{b2}{g2}'
    return f'{b1}{g1}{sl}{b2}{g2}', f'{a}\\({b1}[X]{sl}{b2}{f1})'


def _synth_victim(rng):
    """a pair that combines successfully and whose result keeps an unbound feature variable"""
    a1, a2, c = rng.choice(EN_ATOMS), rng.choice(EN_ATOMS), rng.choice(EN_ATOMS)
    sl = rng.choice(['/', '\\'])
    cf = rng.choice(['', '', '[dcl]', '[b]'])
    if rng.random() < 0.5:
        return f'({a1}[X]{sl}{a2}[X])/{c}{cf}', f'{c}{cf}'
    return f'{c}{cf}', f'({a1}[X]{sl}{a2}[X])\\{c}{cf}'


def _toggle_nb(s, rng):
    """add [nb] to a featureless NP/N occurrence or remove an existing one"""
    if '[nb]' in s:
        return s.replace('[nb]', '', 1)
    import re
    spots = [m for m in re.finditer(r'\bNP?(?![\[\w])', s)]
    if not spots:
        return None
    m = rng.choice(spots)
    return s[:m.end()] + '[nb]' + s[m.end():]


class C14(object):
    id = 'C14'
    level = 'exploration'
    isolate = False       # the replica servers isolate each run themselves (fork per request)
    selftest = True
    on_hashseed_divergence = 'route'
    rule = ('case = one rule application (binary: category pair + seen-rule set; unary: category + table) evaluated '
            'by R replica interpreters started under different PYTHONHASHSEED values (always 0 plus seeds that order '
            'a two-string set differently), each in its own shuffled order and twice non-adjacently.  Workload: '
            'shipped seen-rule pairs (en, en_rebank, ja), pairs over the shipped tag inventories, closure under rule '
            'application (depth 2), synthetic categories with several occurrences of one feature variable bound to '
            'different values, [nb] twins, shipped/random/empty seen sets and unary tables.  Oracles: no exception; '
            'arguments unchanged (categories, the unary table object - a defaultdict as the loader builds it - and the seen-rule set); identical result list at every evaluation in every replica and equal to the item evaluated '
            'alone in a fresh process image (sampled), also when it is evaluated right after another item (ordered pairs over '
            'a small set biased to items that bind, clash on or keep feature variables); seen filter = all or '
            'nothing; en results independent of [nb]; unary results = configured targets in order.  Distinct = digest '
            'of the item; non-trivial = non-empty result evaluated under >= 2 hash seeds whose two-string set order '
            'differs.')
    tiers = {'quick': (600, 40), 'thorough': (60000, 900)}
    options = {'chunk': 4}
    assumptions = ['replicas are fresh CPython interpreters differing only in PYTHONHASHSEED; other sources of '
                   'cross-process divergence (locale, platform) are not varied']

    endurance_every = {'quick': 150, 'thorough': 250}

    def is_endurance_run(self, index, tier):
        e = self.endurance_every.get(tier, 0)
        return bool(e) and index % e == e // 3

    def execute_endurance(self, spec):
        """long-lived process state: ONE process applies the binary rules to more than 2^18 different category pairs
        (all categories of the shipped seen rules and tag inventory, paired in a fixed pseudo-random order).  No
        application may raise, and sampled results must equal those of a fresh process."""
        e = spec['endurance']
        stats = new_stats()
        srv = _server(0)
        srv.stdin.write(json.dumps({'endurance': e}) + '\n')
        srv.stdin.flush()
        line = srv.stdout.readline()
        if not line:
            raise env.HarnessError('replica interpreter died')
        reply = json.loads(line)
        if 'died' in reply:
            raise env.HarnessError(f'endurance child died (status {reply["died"]})')
        r = reply['endurance']
        violations = []
        bump(stats, 'endurance_runs')
        stats['counters']['most_distinct_pairs_applied_in_one_process'] = r.get('applied', r.get('at', 0))
        stats['counters']['categories_paired'] = r.get('categories', 0)
        lang = 'ja' if e['variant'] == 'ja' else 'en'
        if 'exc' in r:
            violations.append(Violation(
                oracle='total', property='C14',
                message=(f'{lang} binary {r["x"]} , {r["y"]} raised {r["exc"]} as the {r["at"] + 1}-th different pair applied in one '
                         f'process'), signature={'kind': r['exc'].split(':')[0], 'after': 'many distinct pairs'}))
        else:
            items = [{'kind': 'binary', 'lang': lang, 'x': x, 'y': y, 'seen': None, 'tag': 'endurance_sample'}
                     for x, y, _ in r['samples']]
            srv.stdin.write(json.dumps({'items': items, 'order': list(range(len(items)))}) + '\n')
            srv.stdin.flush()
            fresh = json.loads(srv.stdout.readline())
            if 'died' in fresh:
                raise env.HarnessError('replica evaluation child died')
            for (x, y, res), a in zip(r['samples'], fresh['answers']):
                bump(stats, 'evaluations')
                if res:
                    add_set(stats, 'nontrivial', digest((x, y)))
                if a.get('res') != res:
                    violations.append(Violation(
                        oracle='same_as_alone', property='C14',
                        message=(f'{lang} ({x}, {y}) applied in a process that had applied up to {r["applied"]} other pairs gives '
                                 f'{_cats(res)}, in a fresh process {_cats(a.get("res") or []) if "res" in a else a}'),
                        signature={'kind': 'history', 'after': 'many distinct pairs'}))
                    break
        stats['samples'].append({'endurance': e, 'applied': r.get('applied'), 'categories': r.get('categories')})
        return {'violations': violations[:1], 'stats': stats,
                'log_digest': digest((e, r.get('applied'), r.get('exc'), [s[2] for s in r.get('samples', [])][:50]))}

    # ------------------------------------------------------------ generation
    def generate(self, seed, index, tier, options):
        if self.is_endurance_run(index, tier):
            rng = gen.stream(seed, 'C14:endurance', index)
            return {'prop': 'C14', 'seed': seed, 'index': index, 'endurance': {
                'variant': rng.choice(['en', 'en', 'en_rebank', 'ja']), 'n': (1 << 18) + rng.choice([50, 3000, 9000]),
                'start': rng.getrandbits(30), 'sample_every': 997}}
        from depccg.cat import Category
        from depccg.grammar import en, ja
        rng = gen.stream(seed, 'C14:items', index)
        n_rep = 4 if tier == 'quick' else rng.choice([4, 6, 8])
        seeds = [0] + rng.sample(HASHSEED_POOL[1:], n_rep - 1)
        items = []
        variant = rng.choice(['en', 'en', 'en_rebank', 'ja'])
        lang = 'ja' if variant == 'ja' else 'en'
        mod = {'en': en, 'ja': ja}[lang]
        pairs, by_left, by_right = gen.seen_index(variant)
        targets = [str(Category.parse(t)) for t in rng.sample(grammars.shipped('targets', variant), 12)]
        n_items = rng.randint(60, 160)
        subset = [list(p) for p in rng.sample(pairs, 40)]
        seen_specs = [None, None, {'variant': variant}, {'pairs': subset}, {'pairs': []}]

        def add_binary(x, y, seen=None, plain=False, tag='pair'):
            it = {'kind': 'binary', 'lang': lang, 'x': x, 'y': y, 'seen': seen, 'tag': tag}
            if plain:
                it['plain'] = True
            items.append(it)
            return it
        closure_src = []
        while len(items) < n_items:
            r = rng.random()
            if r < 0.35:
                x, y = rng.choice(pairs)
                seen = rng.choice(seen_specs)
                add_binary(x, y, seen, tag='seen_pair')
                if seen is not None:
                    add_binary(x, y, None, tag='unrestricted_twin')
                closure_src.append((x, y))
            elif r < 0.5:
                add_binary(rng.choice(targets), rng.choice(targets), rng.choice(seen_specs), tag='inventory_pair')
            elif r < 0.65 and closure_src:
                x, y = rng.choice(closure_src)
                try:
                    res = sorted(str(q.cat) for q in mod.apply_binary_rules(Category.parse(x), Category.parse(y)))
                except Exception:
                    res = []
                if res:
                    c = rng.choice(res)
                    partner = rng.choice(by_left.get(c, []) + by_right.get(c, []) + targets)
                    if rng.random() < 0.5:
                        add_binary(c, partner, None, tag='closure')
                    else:
                        add_binary(partner, c, None, tag='closure')
                    closure_src.append((items[-1]['x'], items[-1]['y']))
            elif r < 0.8 and lang == 'en':
                kind = rng.choice(['multi', 'multi', 'primer', 'victim'])
                if kind == 'multi':
                    x, y = _synth_var_pair(rng)
                    add_binary(x, y, None, plain=rng.random() < 0.5, tag='feature_variable')
                elif kind == 'primer':
                    x, y = _synth_primer(rng)
                    add_binary(x, y, None, tag='binds_then_clashes')
                else:
                    x, y = _synth_victim(rng)
                    add_binary(x, y, None, tag='result_keeps_variable')
            elif r < 0.88 and lang == 'en':
                base = rng.choice(items) if items else None
                if base and base['kind'] == 'binary':
                    tx = _toggle_nb(base['x'], rng)
                    if tx:
                        it = add_binary(tx, base['y'], base.get('seen'), tag='nb_twin')
                        it['twin_of'] = items.index(base)
            elif r < 0.90 and lang == 'ja':
                # bounded synthetic categories for the Japanese grammar: an atom of a shipped category without its
                # feature triple (as in the failure placeholder's plain NP), in binary and unary position
                base = rng.choice(pairs)
                which = rng.randrange(2)
                txt = base[which]
                spots = [m for m in re.finditer(r'\[[^\]]*\]', txt)]
                if spots:
                    m = rng.choice(spots)
                    stripped = txt[:m.start()] + txt[m.end():]
                    if rng.random() < 0.7:
                        pair = (stripped, base[1]) if which == 0 else (base[0], stripped)
                        add_binary(pair[0], pair[1], None, tag='mixed_features')
                    else:
                        items.append({'kind': 'unary', 'lang': lang, 'x': stripped,
                                      'table': {'pairs': [[stripped, rng.choice(targets)]]}, 'tag': 'mixed_features_unary'})
            elif r < 0.94:
                # near-twins of an earlier item: same pair with variable features / all features erased, or swapped.
                # (a memo keyed by a coarser view of the arguments makes twins interfere)
                cands = [it for it in items if it['kind'] == 'binary']
                if cands:
                    base = rng.choice(cands)
                    how = rng.choice(['erase_X', 'erase_X', 'erase_all', 'swap'])
                    try:
                        cx, cy = Category.parse(base['x']), Category.parse(base['y'])
                        if how == 'erase_X':
                            tx, ty = str(cx.clear_features('X')), str(cy.clear_features('X'))
                        elif how == 'erase_all':
                            feats = set(re.findall(r'\[([^\]]*)\]', base['x'] + base['y']))
                            tx, ty = str(cx.clear_features(*feats)), str(cy.clear_features(*feats))
                        else:
                            tx, ty = base['y'], base['x']
                        if (tx, ty) != (base['x'], base['y']):
                            add_binary(tx, ty, base.get('seen'), tag='near_twin_' + how)
                    except Exception:
                        pass
            else:
                utab = grammars.shipped('unary_rules', variant)
                if rng.random() < 0.6:
                    table = {'variant': variant}
                else:
                    table = {'pairs': [list(p) for p in rng.sample(utab, rng.randint(0, min(6, len(utab))))]}
                if rng.random() < 0.3:
                    table['plain_dict'] = True      # otherwise a defaultdict(list), as the configuration loader builds it
                if rng.random() < 0.7:
                    x = str(Category.parse(rng.choice(utab)[0]))
                else:
                    x = rng.choice(targets)
                items.append({'kind': 'unary', 'lang': lang, 'x': x, 'table': table, 'tag': 'unary'})
        # pickled transport: for a share of the binary items the parent (hash seed 0) builds the Category objects and the
        # seen-rule set and ships them as a pickle; the replicas (other hash seeds) must compute the same result as
        # from the texts
        import base64
        import pickle
        r4 = gen.stream(seed, 'C14:pickle', index)
        twins = []
        for i, it in enumerate(items):
            if it['kind'] == 'binary' and r4.random() < 0.15:
                seen = it.get('seen')
                if seen is None:
                    seen_obj = None
                elif 'variant' in seen:
                    seen_obj = grammars.seen_rule_set(seen['variant'])
                    if r4.random() < 0.7:
                        continue      # the full shipped set is a large pickle: only now and then
                else:
                    seen_obj = {(Category.parse(x).clear_features('X', 'nb'), Category.parse(y).clear_features('X', 'nb'))
                                for x, y in seen['pairs']}
                try:
                    blob = base64.b64encode(pickle.dumps((Category.parse(it['x']), Category.parse(it['y']), seen_obj))).decode()
                except Exception:
                    continue
                twins.append({'kind': 'binary', 'lang': it['lang'], 'x': it['x'], 'y': it['y'], 'seen': it.get('seen'),
                              'tag': 'pickled_transport', 'pickled': blob, 'same_as': i})
        items.extend(twins)
        orders = []
        for rep in range(n_rep):
            order = list(range(len(items))) * 2
            r2 = gen.stream(seed, f'C14:order:{rep}', index)
            r2.shuffle(order)
            orders.append(order)
        r3 = gen.stream(seed, 'C14:alone', index)
        alone = set(r3.sample(range(len(items)), max(1, len(items) // 8)))
        # adjacency: "A then B in one fresh process" for ordered pairs over a small set biased towards items that
        # bind / keep feature variables (state leaking from one rule application into the next one)
        special = [i for i, it in enumerate(items) if it.get('tag') in
                   ('binds_then_clashes', 'result_keeps_variable', 'feature_variable', 'mixed_features')]
        pool_ = (r3.sample(special, min(8, len(special))) + r3.sample(range(len(items)), min(6, len(items))))
        pool_ = list(dict.fromkeys(pool_))
        adjacent = [[a, b] for a in pool_ for b in pool_ if a != b]
        r3.shuffle(adjacent)
        adjacent = adjacent[:40]
        alone |= {b for _, b in adjacent}
        # F10: "A pre-empted after k lines (KeyboardInterrupt), then B" in one fresh process; B is A itself or another
        # item.  Whatever the torn application left behind (half-filled memo, half-bound variables) must not show in B
        r5 = gen.stream(seed, 'C14:interrupt', index)
        interrupted = []
        for _ in range(24):
            a = r5.choice(pool_ + special[:8]) if (pool_ or special) else r5.randrange(len(items))
            b = a if r5.random() < 0.5 else r5.choice(pool_ or [a])
            k = r5.choice([1, 2, 4, 8, 15, 30, 60, 120, 250, 500]) + r5.randrange(0, 6)
            interrupted.append([a, k, b])
        alone |= {b for _, _, b in interrupted}
        alone = sorted(alone)
        return {'prop': 'C14', 'seed': seed, 'index': index, 'variant': variant, 'hashseeds': seeds,
                'items': items, 'orders': orders, 'alone': alone, 'adjacent': adjacent, 'interrupted': interrupted}

    # ------------------------------------------------------------ execution
    def execute(self, spec, executor_mode=None):
        if 'endurance' in spec:
            return self.execute_endurance(spec)
        stats = new_stats()
        items = spec['items']
        answers = []     # per replica: {item index: [answers in evaluation order]}
        set_orders = []
        srvs = [_server(h) for h in spec['hashseeds']]
        # send to all replicas first, then collect: they really run concurrently
        for srv, order in zip(srvs, spec['orders']):
            srv.stdin.write(json.dumps({'items': items, 'order': order}) + '\n')
            srv.stdin.flush()
        for srv, order in zip(srvs, spec['orders']):
            line = srv.stdout.readline()
            if not line:
                raise env.HarnessError('replica interpreter died')
            reply = json.loads(line)
            if 'died' in reply:
                raise env.HarnessError(f'replica evaluation child died (status {reply["died"]})')
            got = reply['answers']
            per = {}
            for idx, a in zip(order, got):
                per.setdefault(idx, []).append(a)
            answers.append(per)
            set_orders.append(tuple(srv.hello['pair_order']))
        # reference answers: the item evaluated alone in a fresh process image (replica 0)
        alone_answers = {}
        for i in spec.get('alone', []):
            srvs[0].stdin.write(json.dumps({'items': [items[i]], 'order': [0]}) + '\n')
        srvs[0].stdin.flush()
        for i in spec.get('alone', []):
            reply = json.loads(srvs[0].stdout.readline())
            if 'died' in reply:
                raise env.HarnessError('replica evaluation child died')
            alone_answers[i] = reply['answers'][0]
        bump(stats, 'alone_reference_evaluations', len(alone_answers))
        adjacent_answers = []
        for a, b in spec.get('adjacent', []):
            srvs[0].stdin.write(json.dumps({'items': [items[a], items[b]], 'order': [0, 1]}) + '\n')
        srvs[0].stdin.flush()
        for a, b in spec.get('adjacent', []):
            reply = json.loads(srvs[0].stdout.readline())
            if 'died' in reply:
                raise env.HarnessError('replica evaluation child died')
            adjacent_answers.append(reply['answers'][1])
        bump(stats, 'adjacent_pair_evaluations', len(adjacent_answers))
        interrupted_answers = []
        for a, k, b in spec.get('interrupted', []):
            srvs[0].stdin.write(json.dumps({'items': [dict(items[a], interrupt_after=k), items[b]], 'order': [0, 1]}) + '\n')
        srvs[0].stdin.flush()
        for a, k, b in spec.get('interrupted', []):
            reply = json.loads(srvs[0].stdout.readline())
            if 'died' in reply:
                raise env.HarnessError('replica evaluation child died')
            interrupted_answers.append(reply['answers'])
            if reply['answers'][0].get('interrupted'):
                bump(stats, 'fault:F10_rule_application_interrupted')
        diverse = len(set(set_orders)) >= 2
        bump(stats, 'replica_evaluations', sum(len(o) for o in spec['orders']))
        bump(stats, 'fault:F6_evaluations_under_other_hashseed',
             sum(len(o) for h, o in zip(spec['hashseeds'], spec['orders']) if h != 0))
        bump(stats, 'fault:evaluation_order_shuffled_per_replica', len(spec['orders']))
        add_set(stats, 'hashseeds_used', tuple(spec['hashseeds']))
        if diverse:
            bump(stats, 'probe:run_with_replicas_ordering_a_string_set_differently')
        violations = []

        def vio(oracle, message, item, **sig):
            violations.append(Violation(oracle=oracle, message=message, signature=sig, property='C14',
                                        item=item))
        log = []
        for i, it in enumerate(items):
            bump(stats, 'evaluations')
            ref = answers[0][i][0]
            log.append(ref)
            desc = f'{it["lang"]} {it["kind"]} {it["x"]}' + (f' , {it["y"]}' if it['kind'] == 'binary' else '')
            # (1) total
            for rep, per in enumerate(answers):
                for a in per[i]:
                    if 'exc' in a:
                        vio('total', f'{desc} raised {a["exc"]} (PYTHONHASHSEED={spec["hashseeds"][rep]})', i,
                            kind=a['exc'].split(':')[0])
                        break
                if violations:
                    break
            if violations:
                break
            # (2) pure
            if any(a.get('mutated') for per in answers for a in per[i]):
                vio('arguments_unchanged', f'{desc}: an argument changed during the call', i, kind='mutated')
                break
            # (3) reproducible: same replica twice, and all replicas
            for rep, per in enumerate(answers):
                if per[i][0]['res'] != per[i][-1]['res']:
                    vio('reproducible_in_process',
                        f'{desc}: two evaluations in one process (PYTHONHASHSEED={spec["hashseeds"][rep]}) differ: '
                        f'{per[i][0]["res"]} vs {per[i][-1]["res"]}', i, kind='history')
                    break
                if per[i][0]['res'] != ref['res']:
                    vio('replicas_agree',
                        f'{desc}: PYTHONHASHSEED={spec["hashseeds"][0]} gives {_cats(ref["res"])}, '
                        f'PYTHONHASHSEED={spec["hashseeds"][rep]} gives {_cats(per[i][0]["res"])}', i,
                        kind='hashseed')
                    break
            if violations:
                break
            if i in alone_answers and alone_answers[i].get('res') != ref['res']:
                vio('same_as_alone',
                    f'{desc}: evaluated alone in a fresh process gives {_cats(alone_answers[i].get("res") or [])}, inside the '
                    f'recorded list (after other rule applications) {_cats(ref["res"])}', i, kind='history')
                break
            if ref['res'] and diverse:
                add_set(stats, 'nontrivial', digest(it))
            bump(stats, 'tag:' + it.get('tag', '?'))
            if it.get('tag') == 'feature_variable' and ref['res']:
                bump(stats, 'probe:feature_variable_pair_with_result')
        if not violations:
            for (a, b), got in zip(spec.get('adjacent', []), adjacent_answers):
                want = alone_answers.get(b)
                if want is not None and got.get('res') != want.get('res'):
                    ia, ib = items[a], items[b]
                    vio('same_as_alone',
                        f'{ib["lang"]} ({ib["x"]}, {ib["y"]}) evaluated right after ({ia["x"]}, {ia["y"]}) in one fresh process '
                        f'gives {_cats(got.get("res") or [])}, alone it gives {_cats(want.get("res") or [])}', b,
                        kind='history')
                    break
        if not violations:
            for (a, k, b), got in zip(spec.get('interrupted', []), interrupted_answers):
                want = alone_answers.get(b)
                if not got[0].get('interrupted') or want is None:
                    continue
                if got[1].get('res') != want.get('res') or got[1].get('mutated'):
                    ia, ib = items[a], items[b]
                    vio('same_as_alone',
                        f'{ib["lang"]} {ib["kind"]} ({ib["x"]}, {ib.get("y")}) evaluated after ({ia["x"]}, {ia.get("y")}) had been '
                        f'interrupted {k} lines into its application gives {_cats(got[1].get("res") or []) if "res" in got[1] else got[1]}, '
                        f'alone it gives {_cats(want.get("res") or [])}', b, kind='history', after='F10')
                    break
        if not violations:
            self.model_checks(spec, answers[0], stats, vio)
        if not stats['samples']:
            stats['samples'].append({'hashseeds': spec['hashseeds'], 'variant': spec['variant'],
                                     'items': [{k: v for k, v in it.items() if k != 'seen' or v is None or 'variant' in v}
                                               for it in items[:5]],
                                     'first_answers': [answers[0][i][0] for i in range(min(3, len(items)))]})
        return {'violations': violations[:1], 'stats': stats, 'log_digest': digest(log)}

    def model_checks(self, spec, per, stats, vio):
        """(4)-(6): model equalities on the replica-0 answers"""
        from depccg.cat import Category
        items = spec['items']
        unrestricted = {}
        for i, it in enumerate(items):
            if it['kind'] == 'binary' and it.get('seen') is None:
                unrestricted[(it['x'], it['y'])] = per[i][0]['res']
        seen_sets = {}
        for i, it in enumerate(items):
            res = per[i][0]['res']
            if it['kind'] == 'binary' and it.get('seen') is not None:
                key = (it['x'], it['y'])
                if key not in unrestricted:
                    continue
                sk = json.dumps(it['seen'], sort_keys=True)
                if sk not in seen_sets:
                    if 'variant' in it['seen']:
                        seen_sets[sk] = grammars.seen_rule_set(it['seen']['variant'])
                    else:
                        seen_sets[sk] = {(Category.parse(x).clear_features('X', 'nb'),
                                          Category.parse(y).clear_features('X', 'nb')) for x, y in it['seen']['pairs']}
                member = (Category.parse(it['x']).clear_features('X', 'nb'),
                          Category.parse(it['y']).clear_features('X', 'nb')) in seen_sets[sk]
                want = unrestricted[key] if member else []
                bump(stats, 'seen_filter_checked')
                if member:
                    bump(stats, 'probe:seen_filter_member')
                if res != want:
                    vio('seen_filter_all_or_nothing',
                        f'{it["lang"]} ({it["x"]}, {it["y"]}) with a seen set (pair {"in" if member else "not in"} the set): '
                        f'{_cats(res)}; unrestricted result {_cats(unrestricted[key])}', i, kind='seen')
                    return
            if it.get('tag') == 'pickled_transport':
                bump(stats, 'pickled_transport_checked')
                bres = per[it['same_as']][0]['res']
                if res != bres:
                    vio('pickled_arguments_same_result',
                        f'{it["lang"]} ({it["x"]}, {it["y"]}): with arguments built in another interpreter and shipped as a pickle '
                        f'the result is {_cats(res)}, from the texts it is {_cats(bres)}', i, kind='pickle')
                    return
            if it.get('tag') == 'nb_twin':
                base = items[it['twin_of']]
                bres = per[it['twin_of']][0]['res']
                bump(stats, 'nb_twins_checked')
                if res != bres:
                    vio('nb_independent', f'en ({it["x"]}, {it["y"]}) gives {_cats(res)} but ({base["x"]}, {base["y"]}) '
                        f'gives {_cats(bres)}', i, kind='nb')
                    return
            if it['kind'] == 'unary':
                if 'variant' in it['table']:
                    pairs = grammars.shipped('unary_rules', it['table']['variant'])
                else:
                    pairs = it['table']['pairs']
                x = Category.parse(it['x'])
                want = [str(Category.parse(v)) for k, v in pairs if Category.parse(k) == x]
                bump(stats, 'unary_checked')
                if [r[0] for r in res] != want:
                    vio('unary_targets_in_order', f'{it["lang"]} unary {it["x"]}: {[r[0] for r in res]}, table says {want}',
                        i, kind='unary')
                    return

    # ------------------------------------------------------------ shrinking
    def shrink_candidates(self, spec):
        if 'endurance' in spec:
            return
        n = len(spec['items'])
        # halves, then single removals around the failing item
        for lo, hi in ((0, n // 2), (n // 2, n)):
            if hi - lo < n and hi > lo:
                yield self._restrict(spec, list(range(lo, hi)))
        if n <= 24:
            for i in range(n):
                yield self._restrict(spec, [j for j in range(n) if j != i])
        if len(spec['hashseeds']) > 2:
            for r in range(1, len(spec['hashseeds'])):
                cand = copy.deepcopy(spec)
                del cand['hashseeds'][r]
                del cand['orders'][r]
                yield cand
        for it_i, it in enumerate(spec['items']):
            if it.get('seen') is not None and n <= 6:
                cand = copy.deepcopy(spec)
                cand['items'][it_i]['seen'] = None
                yield cand

    def _restrict(self, spec, keep):
        cand = copy.deepcopy(spec)
        remap = {old: new for new, old in enumerate(keep)}
        cand['items'] = [copy.deepcopy(spec['items'][i]) for i in keep]
        for it in cand['items']:
            if 'same_as' in it:
                if it['same_as'] in remap:
                    it['same_as'] = remap[it['same_as']]
                else:
                    it['tag'] = 'pair'
                    it.pop('same_as')
            if 'twin_of' in it:
                if it['twin_of'] in remap:
                    it['twin_of'] = remap[it['twin_of']]
                else:
                    it.pop('twin_of')
                    it['tag'] = 'pair'
        cand['orders'] = [[remap[i] for i in order if i in remap] for order in spec['orders']]
        cand['alone'] = sorted(remap[i] for i in spec.get('alone', []) if i in remap)
        cand['adjacent'] = [[remap[a], remap[b]] for a, b in spec.get('adjacent', []) if a in remap and b in remap]
        cand['interrupted'] = [[remap[a], k, remap[b]] for a, k, b in spec.get('interrupted', []) if a in remap and b in remap]
        return cand

    def evidence_extra(self, stats):
        return {'replica_interpreters': 'real CPython processes, one per hash seed, persistent per worker'}


def _cats(res):
    return [r[0] for r in res]


PROP = C14()
