"""C16 -- the supertag beam is honoured (pruning_size, beta filter, failure clause)"""
import math

import numpy

from depsim import gen, refparser, session
from depsim.props.base import ParserSessionProp, FAMILIES_ALL
from depsim.runner import Violation, add_set, bump, digest


class C16(ParserSessionProp):
    id = 'C16'
    families = FAMILIES_ALL
    max_len = 6
    nbest_choices = (1, 1, 2, 4, 8)
    fault_classes = ('none', 'none', 'inband')
    rule = ('case = (word row, beam config) of a sentence answered by the real parser in a simulated session, with '
            'score rows built around the rule: ties / adjacent floats at the pruning_size boundary, scores straddling '
            'log(beta)+best by 1e-4..0.5, rows flattened to -1e33 by the real apply_category_filters; beta in '
            '{1e-5,0.01,0.3,0.9}, filter on/off, pruning_size 1-8.  Independent beam model with an epsilon band '
            '(either-way zone).  Oracles: every leaf tag of every returned tree is not surely excluded; if no '
            'derivation exists over the not-surely-excluded tags the response is the failure placeholder; if one exists over '
            'the surely-admitted tags and the budget was not hit the response is not a failure. '
            'Distinct = digest of (row, config); non-trivial = the model surely excludes >= 1 tag of the row.')

    def knobs(self, rng, tier, options):
        k = super().knobs(rng, tier, options)
        k['use_beta'] = rng.random() < 0.75
        k['beta'] = rng.choice([1e-5, 0.01, 0.3, 0.9, 0.9, 0.999, 1e-12])
        k['pruning_size'] = rng.choice([1, 1, 2, 2, 3, 4, 8])
        return k

    def tweak_world(self, rng, wspec, knobs):
        import depccg.parsing as P
        from depccg.cat import Category
        from depccg.types import Token, ScoringResult
        cats = [Category.parse(c) for c in wspec['grammar']['categories']]
        T = len(cats)
        beta = knobs['beta']
        ps = knobs['pruning_size']
        for s in wspec['sentences']:
            tag = gen.hex_to_arr(s['tag'])
            n = tag.shape[0]
            mode = rng.choice(['none', 'straddle', 'straddle', 'tie', 'flatten', 'far', 'neginf', 'best_zero', 'deep', 'deep'])
            s['beam_mode'] = mode
            if mode == 'none' or T < 2:
                continue
            fav = s.get('favoured')
            if mode == 'deep':
                # unnormalised / extremely unsure rows: even the best tag of a word lies near the single-precision
                # underflow of exp() (about -87 normal, -104 denormal); the other tags are spread far below
                for i in range(n):
                    if rng.random() < 0.6:
                        row = tag[i]
                        best_t = int(numpy.argmax(row))
                        shift = rng.choice([80.0, 92.0, 100.0])
                        row -= numpy.float32(shift)
                        for t in range(T):
                            if t != best_t and rng.random() < 0.7:
                                row[t] = numpy.float32(row[best_t] - rng.choice([5.0, 20.0, 60.0, 150.0, 400.0]))
                        if fav and rng.random() < 0.5 and fav[i] != best_t:
                            row[fav[i]] = numpy.float32(row[best_t] - rng.choice([20.0, 60.0, 150.0]))
                s['tag'] = gen.arr_to_hex(numpy.minimum(tag, 0.0))
                continue
            for i in range(n):
                if rng.random() < 0.3:
                    continue
                row = tag[i]
                order = numpy.argsort(-row, kind='stable')
                best = float(row[order[0]])
                if mode in ('straddle', 'far') and fav and rng.random() < 0.5 and int(order[0]) != fav[i]:
                    # put the tag the sentence's known derivation needs at the threshold
                    t = fav[i]
                    if mode == 'straddle':
                        delta = rng.choice([-0.5, -0.05, -1e-3, 0.0, 1e-3, 0.05, 0.5])
                        row[t] = numpy.float32(best + math.log(beta) + delta)
                    else:
                        row[t] = numpy.float32(best + math.log(beta) - rng.choice([3.0, 20.0, 100.0, 200.0]))
                    continue
                if mode == 'straddle':
                    t = int(order[rng.randrange(1, T)])
                    delta = rng.choice([-0.5, -0.05, -1e-3, -1e-4, 0.0, 1e-4, 1e-3, 0.05, 0.5])
                    row[t] = numpy.float32(best + math.log(beta) + delta)
                elif mode == 'far':
                    t = int(order[rng.randrange(1, T)])
                    row[t] = numpy.float32(best + math.log(beta) - rng.choice([3.0, 20.0, 200.0]))
                elif mode == 'neginf':
                    t = int(order[rng.randrange(1, T)])
                    row[t] = -numpy.inf                       # probability zero is a legitimate log-probability
                elif mode == 'best_zero':
                    row[int(order[0])] = 0.0                  # a tagger that is certain
                elif mode == 'tie' and T > ps:
                    a, b = int(order[ps - 1]), int(order[ps])
                    if rng.random() < 0.5:
                        row[b] = row[a]
                    else:
                        row[b] = numpy.nextafter(row[a], numpy.float32(-numpy.inf), dtype=numpy.float32)
            if mode == 'flatten':
                # the real category dictionary: listed words keep only the listed categories
                words = s['words']
                cat_dict = {}
                for w in words:
                    if rng.random() < 0.6:
                        keep = rng.sample(range(T), rng.randint(1, max(1, T - 1)))
                        if fav and rng.random() < 0.5 and fav[words.index(w)] in keep and len(keep) > 1:
                            keep.remove(fav[words.index(w)])     # the needed tag gets flattened
                        cat_dict[w] = [cats[k] for k in keep]
                doc = [[Token.of_word(w) for w in words]]
                dep = gen.hex_to_arr(s['dep'])
                _, res = P.apply_category_filters(doc, [ScoringResult(tag, dep)], cats, cat_dict)
                tag = res[0].tag_scores
            s['tag'] = gen.arr_to_hex(numpy.minimum(tag, 0.0))

    def check_call(self, world, op, rec, stats, spec):
        out = []
        if rec.exception is not None or rec.ub or rec.unraisable:
            return out
        cfg = session.cfg_of(op)
        penalty = session.f32(cfg['unary_penalty'])
        for pos, sid in enumerate(op['batch']):
            if pos >= len(rec.responses):
                break
            p = rec.per_sentence[pos]
            if p is None:
                continue
            resp = rec.responses[pos]
            surely, maybe = session.admitted_sets(world, sid, cfg)
            T = len(world.categories)
            n = world.n(sid)
            for i in range(n):
                bump(stats, 'evaluations')
                excluded = T - len(maybe[i])
                if excluded >= 1:
                    add_set(stats, 'nontrivial', digest((world.tag0[sid][i].tobytes().hex(), cfg['pruning_size'],
                                                         cfg['use_beta'], cfg['beta'])))
                if len(maybe[i]) != len(surely[i]):
                    bump(stats, 'probe:row_with_tag_in_either_way_band')
                if cfg['use_beta']:
                    row = world.tag0[sid][i].astype(numpy.float64)
                    k_best = numpy.sort(row)[::-1][:cfg['pruning_size']]
                    if (k_best - row.max() < math.log(cfg['beta'])).any():
                        bump(stats, 'probe:beta_cuts_inside_the_pruning_size_best')
                    else:
                        bump(stats, 'probe:pruning_size_cuts_before_beta')
            if world.spec['sentences'][sid].get('beam_mode') == 'flatten':
                bump(stats, 'probe:row_flattened_by_category_dictionary')
            if refparser.is_placeholder(resp):
                bump(stats, 'placeholders_checked')
                # (3) tags the beam surely admits are available to the search ("with the filter disabled only
                # pruning_size limits the choice"): a derivation over them means the sentence must not fail
                if p['pops'] < p['max_step']:
                    try:
                        lb = refparser.viterbi(n, world.tag0[sid], world.dep0[sid], world.categories, surely,
                                               world.memo, world.roots, penalty)
                    except refparser.RefOverflow:
                        lb = None
                    weakest = min((float(world.tag0[sid][i][t]) for i in range(n) for t in surely[i]), default=0.0)
                    if cfg['use_beta'] and weakest < -80.0:
                        # with the filter on, probabilities below the single-precision range of exp() cannot be
                        # compared with beta * P(best) by any float implementation: no availability claim there
                        lb = None
                    if lb is not None:
                        out.append(Violation(
                            oracle='admitted_tags_available',
                            message=(f'sentence {sid} failed after {p["pops"]} of {p["max_step"]} steps although a derivation '
                                     f'(score {lb:.6g}) exists over tags the beam admits (pruning_size {cfg["pruning_size"]}, '
                                     f'use_beta {cfg["use_beta"]}, beta {cfg["beta"]}; weakest admitted tag score {weakest:.6g})'),
                            signature={'kind': 'filter_on' if cfg['use_beta'] else 'filter_off'}))
                        return out
                    bump(stats, 'failures_confirmed_no_derivation_over_admitted_tags')
                continue
            # a parse was returned: (1) its leaf tags must not be surely excluded
            for st in resp:
                for i, leaf in enumerate(st.tree.leaves):
                    t = world.cat_index.get(leaf.cat)
                    if t is None:
                        continue
                    if t not in maybe[i]:
                        row = world.tag0[sid][i]
                        rank = int((row > row[t]).sum())
                        why = ('outside the pruning_size best' if rank >= cfg['pruning_size'] else
                               f'probability ratio {math.exp(float(row[t]) - float(row.max())):.3g} below beta={cfg["beta"]}')
                        out.append(Violation(
                            oracle='leaf_tag_within_beam',
                            message=(f'sentence {sid} word {i} uses tag {leaf.cat} (score {float(row[t]):.6f}, best '
                                     f'{float(row.max()):.6f}, rank {rank}, pruning_size {cfg["pruning_size"]}, '
                                     f'use_beta {cfg["use_beta"]}): {why}'),
                            signature={'kind': 'pruning' if rank >= cfg['pruning_size'] else 'beta'}))
                        return out
            # (1b) whatever the order among tied tags, one word never has more than pruning_size admitted tags:
            # the tags a word carries across the trees of one response must fit into one beam
            for i in range(n):
                used = {world.cat_index.get(st.tree.leaves[i].cat) for st in resp if len(st.tree.leaves) == n}
                used.discard(None)
                if len(used) > cfg['pruning_size']:
                    out.append(Violation(
                        oracle='at_most_pruning_size_tags_per_word',
                        message=(f'sentence {sid} word {i}: the {len(resp)} returned trees use {len(used)} different tags '
                                 f'for this word, pruning_size is {cfg["pruning_size"]} (scores '
                                 f'{sorted((float(world.tag0[sid][i][t]) for t in used), reverse=True)})'),
                        signature={'kind': 'count'}))
                    return out
            # (2) failure clause: a parse exists only if the not-surely-excluded tags allow one
            try:
                ub = refparser.viterbi(n, world.tag0[sid], world.dep0[sid], world.categories, maybe,
                                       world.memo, world.roots, penalty)
            except refparser.RefOverflow:
                continue
            if ub is None:
                out.append(Violation(
                    oracle='fails_when_beam_excludes',
                    message=f'sentence {sid}: a parse was returned although no derivation exists over the admitted tags',
                    signature={'kind': 'should_fail'}))
                return out
            bump(stats, 'parses_checked')
        return out


PROP = C16()
