"""C18 -- printing is an observation: histories of renderings on shared result
objects vs a stateless reference renderer (primary)."""
import copy

from depsim import gen, refparser, session
from depsim.props.base import ParserSessionProp
from depsim.runner import Violation, add_set, bump, digest, new_stats

FORMATS = ['auto', 'auto_extended', 'conll', 'deriv', 'html', 'ja', 'json', 'ptb', 'xml', 'jigg_xml', 'prolog']


def snapshot(results):
    """id()-free state of every shared object reachable from the results"""
    def tok(t):
        return (type(t).__name__, tuple((k, repr(t[k])) for k in t.keys()))

    def tree(n):
        if n.is_leaf:
            return ('L', str(n.cat), n.op_string, n.op_symbol, n.head_is_left, tok(n.children[0]))
        return ('T', str(n.cat), n.op_string, n.op_symbol, n.head_is_left, len(n.children),
                tuple(tree(c) for c in n.children))
    return tuple(tuple((tree(st.tree), repr(st.score)) for st in resp) for resp in results)


def render(results, fmt, via, lang):
    """one rendering; returns ('ok', text) or ('exc', type name)"""
    from lxml import etree
    from depccg import printer as P
    from depccg.lang import set_global_language_to, get_global_language
    saved = get_global_language()
    set_global_language_to(lang)
    try:
        if via == 'to_string':
            return ('ok', P.to_string(results, fmt))
        if isinstance(via, str) and via.startswith('print'):
            # the printing entry point itself (what the CLI calls), with the keyword arguments it forwards to print():
            # everything it writes, to the given file or to standard output, is the rendering
            import contextlib
            import io
            buf, stdout = io.StringIO(), io.StringIO()
            kw = {'print': {}, 'print:file': {'file': buf}, 'print:file_end': {'file': buf, 'end': ''},
                  'print:end': {'end': '<END>'}, 'print:sep_flush': {'sep': '|', 'flush': True}}[via]
            with contextlib.redirect_stdout(stdout):
                P.print_(results, format=fmt, **kw)
            return ('ok', 'FILE:' + buf.getvalue() + '\nSTDOUT:' + stdout.getvalue())
        if isinstance(via, str) and via.startswith('flat:'):
            # the documented single-sentence form: a flat list of ScoredTree
            return ('ok', P.to_string(results[int(via[5:]) % len(results)], fmt))
        per_tree = {'auto': P.auto_of, 'auto_extended': P.auto_extended_of, 'conll': P.conll_of,
                    'deriv': P.deriv_of, 'ja': P.ja_of, 'ptb': P.ptb_of}
        if fmt in per_tree:
            return ('ok', '\n'.join(per_tree[fmt](st.tree) for resp in results for st in resp))
        if fmt == 'json':
            import json
            return ('ok', json.dumps([[P.json_of(st.tree) for st in resp] for resp in results], sort_keys=True))
        if fmt == 'xml':
            return ('ok', etree.tostring(P.xml_of(results), encoding='unicode'))
        if fmt == 'jigg_xml':
            return ('ok', etree.tostring(P.to_jigg_xml(results, use_symbol=lang == 'ja'), encoding='unicode'))
        if fmt == 'html':
            return ('ok', P.to_mathml(results))
        if fmt == 'prolog':
            return ('ok', P.to_prolog_en(results) if lang == 'en' else P.to_prolog_ja(results))
        raise KeyError(fmt)
    except Exception as e:  # noqa
        return ('exc', type(e).__name__)
    finally:
        set_global_language_to(saved)


def render_interrupted(results, fmt, via, lang, after):
    """F10 (depsim.faults): the rendering is pre-empted after `after` line events inside the repository's
    code and receives KeyboardInterrupt.  returns ('interrupted', after) or, when the rendering finished
    earlier, its result"""
    from depsim import faults
    hit, value = faults.run_interrupted(lambda: render(results, fmt, via, lang), after)
    return ('interrupted', after) if hit else value


def render_with_stack_budget(results, fmt, via, lang, extra):
    """F11: the rendering runs with `extra` frames of stack left.  returns ('exhausted', extra) when RecursionError
    came out, else the rendering's result (which then has to be the complete, ordinary one)"""
    from depsim import faults
    hit, value = faults.run_with_stack_budget(lambda: render(results, fmt, via, lang), extra)
    if hit or value[0] == 'exc':
        # an exception of any type is a legitimate way out of an exhausted stack; only a rendering that claims
        # success is compared with the reference
        return ('exhausted', extra)
    return value


class ReferenceRenderer(object):
    """the stateless reference model: a process forked BEFORE the first operation of the history (it
    holds the pristine results and pristine module state of the printers) that answers each request
    from a fresh fork of itself, so nothing an earlier rendering did -- to the objects or to module
    level state of depccg.printer -- can influence a reference output"""

    def __init__(self, pristine):
        import os
        import pickle
        self._req_r, self._req_w = os.pipe()
        self._res_r, self._res_w = os.pipe()
        self._pid = os.fork()
        if self._pid == 0:
            try:
                os.close(self._req_w)
                os.close(self._res_r)
                inp = os.fdopen(self._req_r, 'rb')
                out = os.fdopen(self._res_w, 'wb')
                while True:
                    head = inp.read(4)
                    if len(head) < 4:
                        break
                    n = int.from_bytes(head, 'little')
                    fmt, via, lang = pickle.loads(inp.read(n))
                    r, w = os.pipe()
                    pid = os.fork()
                    if pid == 0:
                        try:
                            os.close(r)
                            data = pickle.dumps(render(copy.deepcopy(pristine), fmt, via, lang))
                            with os.fdopen(w, 'wb') as f:
                                f.write(data)
                        finally:
                            os._exit(0)
                    os.close(w)
                    with os.fdopen(r, 'rb') as f:
                        data = f.read()
                    os.waitpid(pid, 0)
                    out.write(len(data).to_bytes(4, 'little') + data)
                    out.flush()
            finally:
                os._exit(0)
        os.close(self._req_r)
        os.close(self._res_w)
        self._out = os.fdopen(self._req_w, 'wb')
        self._inp = os.fdopen(self._res_r, 'rb')

    def render(self, fmt, via, lang):
        import pickle
        data = pickle.dumps((fmt, via, lang))
        self._out.write(len(data).to_bytes(4, 'little') + data)
        self._out.flush()
        n = int.from_bytes(self._inp.read(4), 'little')
        if n == 0:
            raise RuntimeError('HARNESS-ERROR: reference renderer died')
        return pickle.loads(self._inp.read(n))

    def close(self):
        import os
        try:
            self._out.close()
            self._inp.close()
            os.waitpid(self._pid, 0)
        except Exception:
            pass


class C18(ParserSessionProp):
    id = 'C18'
    families = ['en', 'en-seen', 'ja', 'ja-seen']
    max_len = 6
    fault_classes = ('none', 'inband')
    rich_tokens = True
    nbest_choices = (1, 2, 3, 4)
    rule = ('case = one history (length 1-12) of render(format, via to_string | via the encoder function) and '
            'set_language operations applied to the same result objects of an en or ja parse session (parses, n-best '
            'lists as returned or re-ordered by the caller, failure placeholders; annotator-style and bare tokens).  Reference model: the same call on a deep '
            'copy of the pristine snapshot, executed in a process forked before the first operation (pristine objects and '
            'pristine module state of the printers).  Oracles after every operation, including '
            'operations that raise: snapshot of all shared objects unchanged (token keys, key order, values, tree fields, '
            'categories); output equals the reference output (same exception type if the reference raises).  Distinct = '
            'digest of (result digest, operation sequence); non-trivial = length >= 2 with >= 2 different formats.')

    def knobs(self, rng, tier, options):
        k = super().knobs(rng, tier, options)
        k['n_calls'] = 1
        return k

    def generate(self, seed, index, tier, options):
        spec = super().generate(seed, index, tier, options)
        rng = gen.stream(seed, 'C18:history', index)
        # one call over all sentences, mostly in-process so that trees share the caller's tokens
        op = spec['ops'][0]
        op['batch'] = list(range(len(spec['world']['sentences'])))
        op.pop('single', None)
        op.pop('fault', None)
        if rng.random() < 0.7:
            op['max_chunk_size'] = 50
            op.pop('schedule', None)
        style = rng.choice(['rich', 'rich', 'plain', 'bare'])
        from depsim.props.c19 import _unusual_words
        for s in spec['world']['sentences']:
            s['token_style'] = style
            _unusual_words(rng, s)
            if rng.random() < 0.1:
                # text extracted from PDFs and the like: control characters glued to a word (some formats refuse them,
                # which is fine for this property as long as the objects stay untouched and the refusal is repeatable)
                i = rng.randrange(len(s['words']))
                s['words'][i] = s['words'][i] + rng.choice(['\x0c', '\x0b', '\x01', '\ufffe', '\x7f'])
        lang = spec['world']['grammar']['lang']
        length = rng.choice([1, 2, 2, 3, 4, 6, 9, 12])
        hist = []
        cur = lang
        for _ in range(length):
            if rng.random() < 0.12:
                cur = rng.choice(['en', 'ja'])
                hist.append({'op': 'set_language', 'lang': cur})
            else:
                fmt = rng.choice(FORMATS + ['jigg_xml', 'xml'])
                via = rng.choice(['to_string', 'to_string', 'encoder', 'flat'])
                if via == 'flat':
                    via = f'flat:{rng.randrange(12)}'
                hist.append({'op': 'render', 'format': fmt, 'via': via})
        # the printing entry point print_ with the keyword arguments it forwards to print(): some renderings go through it
        prng = gen.stream(seed, 'C18:print', index)
        if prng.random() < 0.4:
            for h in hist:
                if h['op'] == 'render' and h['via'] == 'to_string' and prng.random() < 0.6:
                    h['via'] = prng.choice(['print', 'print:file', 'print:file_end', 'print:end', 'print:sep_flush'])
        # F11: one rendering of every fifth history runs with only a few frames of stack left
        srng = gen.stream(seed, 'C18:stack', index)
        renders_ = [h for h in hist if h['op'] == 'render']
        if renders_ and srng.random() < 0.2:
            srng.choice(renders_)['stack_budget'] = srng.choice([6, 8, 10, 12, 15, 18, 22, 26, 30, 35, 40, 50, 60, 80])
        # F10: one rendering of every fourth history is pre-empted at an arbitrary instant (Ctrl-C, timeout signal)
        irng = gen.stream(seed, 'C18:interrupt', index)
        renders = [h for h in hist if h['op'] == 'render']
        if renders and irng.random() < 0.25:
            h = irng.choice(renders[:-1] or renders)
            h['interrupt_after'] = irng.choice([1, 2, 5, 10, 25, 60, 150, 400, 1000, 2500]) + irng.randrange(0, 8)
        spec['history'] = hist
        spec['start_lang'] = lang
        # results as a user may hold them: n-best lists re-ranked / hand-assembled in another order
        spec['assemble'] = rng.choice(['as_returned', 'as_returned', 'reversed', 'shuffled'])
        spec['assemble_seed'] = rng.getrandbits(30)
        return spec

    def check_call(self, world, op, rec, stats, spec):
        world.c18_results = rec.responses if rec.exception is None else None
        return []

    def execute(self, spec, executor_mode=None):
        result = super().execute(spec, executor_mode)
        world = self._last_world
        results = getattr(world, 'c18_results', None)
        stats = result['stats']
        if not results:
            return result
        mode = spec.get('assemble', 'as_returned')
        if mode != 'as_returned':
            import random as _random
            r = _random.Random(spec.get('assemble_seed', 0))
            for resp in results:
                if len(resp) > 1:
                    if mode == 'reversed':
                        resp.reverse()
                    else:
                        r.shuffle(resp)
                    bump(stats, 'probe:nbest_list_reordered_by_caller')
        pristine = copy.deepcopy(results)
        reference = ReferenceRenderer(pristine)
        snap0 = snapshot(results)
        lang = spec['start_lang']
        log = []
        fmts = [h['format'] for h in spec['history'] if h['op'] == 'render']
        hist_key = digest((snap0, spec['history']))
        if len(fmts) >= 2 and len(set(fmts)) >= 2:
            add_set(stats, 'nontrivial', hist_key)
        has_placeholder = any(refparser.is_placeholder(r) for r in results)
        if has_placeholder:
            bump(stats, 'probe:history_over_results_with_placeholder')
        if any(len(r) > 1 for r in results):
            bump(stats, 'probe:history_over_nbest_lists')
        interrupted_before = False
        for hi, h in enumerate(spec['history']):
            if h['op'] == 'set_language':
                lang = h['lang']
                bump(stats, 'fault:F9_language_switched_between_renderings')
                continue
            bump(stats, 'evaluations')
            bump(stats, 'render:' + h['format'])
            if h.get('stack_budget') and not h.get('interrupt_after'):
                got = render_with_stack_budget(results, h['format'], h['via'], lang, h['stack_budget'])
                if got[0] == 'exhausted':
                    bump(stats, 'fault:F11_rendering_hit_the_stack_limit')
                    log.append((h['format'], 'exhausted', h['stack_budget']))
                    if snapshot(results) != snap0:
                        v = Violation(oracle='state_unchanged',
                                      message=(f'operation #{hi} render({h["format"]}, via {h["via"]}, lang {lang}) hit the stack limit '
                                               f'({h["stack_budget"]} frames) and left the shared result objects changed: '
                                               f'{_first_diff(snap0, snapshot(results))}'),
                                      signature={'format': h['format'], 'fault': 'F11'})
                        v['property'] = self.id
                        v['op_index'] = hi
                        result['violations'].append(v)
                        break
                    interrupted_before = True
                    continue
                bump(stats, 'renderings_completed_under_a_stack_budget')
            elif h.get('interrupt_after'):
                got = render_interrupted(results, h['format'], h['via'], lang, h['interrupt_after'])
                if got[0] == 'interrupted':
                    # nothing to compare the torn output with; the objects must be untouched and every later
                    # rendering must still equal that of a fresh copy
                    bump(stats, 'fault:F10_rendering_interrupted')
                    bump(stats, 'interrupted:' + h['format'])
                    log.append((h['format'], 'interrupted', h['interrupt_after']))
                    if snapshot(results) != snap0:
                        v = Violation(oracle='state_unchanged',
                                      message=(f'operation #{hi} render({h["format"]}, via {h["via"]}, lang {lang}) was interrupted '
                                               f'after {h["interrupt_after"]} lines and left the shared result objects changed: '
                                               f'{_first_diff(snap0, snapshot(results))}'),
                                      signature={'format': h['format'], 'fault': 'F10'})
                        v['property'] = self.id
                        v['op_index'] = hi
                        result['violations'].append(v)
                        break
                    interrupted_before = True
                    continue
            else:
                got = render(results, h['format'], h['via'], lang)
            want = reference.render(h['format'], h['via'], lang)
            log.append((h['format'], got[0], digest(got[1])))
            if got[0] == 'exc':
                bump(stats, 'probe:operation_raised')
            v = None
            if snapshot(results) != snap0:
                before = snap0
                after = snapshot(results)
                v = Violation(oracle='state_unchanged',
                              message=(f'after operation #{hi} render({h["format"]}, via {h["via"]}, lang {lang}) the shared '
                                       f'result objects changed: {_first_diff(before, after)}'),
                              signature={'format': h['format']})
            elif got != want:
                v = Violation(oracle='same_as_fresh_copy',
                              message=(f'operation #{hi} render({h["format"]}, via {h["via"]}, lang {lang}) after history '
                                       f'{[x.get("format", x.get("lang")) for x in spec["history"][:hi]]} gives '
                                       f'{_short(got)} but a fresh copy gives {_short(want)}'),
                              signature=dict({'format': h['format'], 'got': got[0], 'want': want[0]},
                                             **({'after': 'F10'} if interrupted_before else {})))
            if v is not None:
                v['property'] = self.id
                v['op_index'] = hi
                result['violations'].append(v)
                break
        reference.close()
        result['log_digest'] = digest((result['log_digest'], log))
        return result

    def shrink_candidates(self, spec):
        hist = spec.get('history', [])
        for i in range(len(hist)):
            cand = copy.deepcopy(spec)
            del cand['history'][i]
            if cand['history']:
                yield cand
        for i, h in enumerate(hist):
            if h.get('via') == 'encoder':
                cand = copy.deepcopy(spec)
                cand['history'][i]['via'] = 'to_string'
                yield cand
        # fewer sentences in the call
        op = spec['ops'][0]
        if len(op['batch']) > 1:
            for j in range(len(op['batch'])):
                cand = copy.deepcopy(spec)
                del cand['ops'][0]['batch'][j]
                yield cand
        if op.get('nbest', 1) > 1:
            cand = copy.deepcopy(spec)
            cand['ops'][0]['nbest'] = 1
            yield cand


def _short(r):
    return (r[0], r[1] if r[0] == 'exc' else (r[1][:120] + '...'))


def _first_diff(a, b):
    if type(a) != type(b) or not isinstance(a, tuple):
        return f'{a!r} -> {b!r}'
    if len(a) != len(b):
        return f'length {len(a)} -> {len(b)}'
    for x, y in zip(a, b):
        if x != y:
            return _first_diff(x, y)
    return 'no difference'


PROP = C18()
