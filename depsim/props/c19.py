"""C19 -- whatever the parser can return can be rendered in every offered format"""
import ast
import copy
import json
import os
import re

from depsim import env, gen, grammars, refparser, session
from depsim.props.base import ParserSessionProp
from depsim.runner import Violation, add_set, bump, digest, new_stats

LINE_FORMATS = ('auto', 'auto_extended', 'conll', 'deriv', 'ptb', 'ja')
SKIP = ('ccg2lambda', 'jigg_xml_ccg2lambda')

_cli = {}


def cli_formats(lang):
    """the CLI's choice list for -f/--format, read from depccg/argparse.py by AST
    (importing the module needs packages that are absent here)"""
    if not _cli:
        path = os.path.join(env.repo_root(), 'depccg', 'argparse.py')
        tree = ast.parse(open(path, encoding='utf-8').read())
        for node in ast.walk(tree):
            if isinstance(node, ast.Call) and isinstance(node.func, ast.Attribute) and node.func.attr == 'add_argument':
                consts = [a.value for a in node.args if isinstance(a, ast.Constant)]
                if '--format' in consts and isinstance(node.func.value, ast.Name):
                    who = node.func.value.id
                    for kw in node.keywords:
                        if kw.arg == 'choices':
                            _cli['en' if 'english' in who else 'ja'] = [e.value for e in kw.value.elts]
        if set(_cli) != {'en', 'ja'}:
            raise env.HarnessError('could not read the --format choice lists from depccg/argparse.py')
    return [f for f in _cli[lang] if f not in SKIP]


_label_index = {}


def label_index(variant):
    """label -> seen pairs that make that combinator fire (computed with the repository's own rule functions)"""
    if variant not in _label_index:
        from depccg.cat import Category
        lang = 'ja' if variant == 'ja' else 'en'
        binary, _ = grammars.real_grammar(lang)
        pairs, _, _ = gen.seen_index(variant)
        idx = {}
        for x, y in pairs:
            try:
                for r in binary(Category.parse(x), Category.parse(y)):
                    idx.setdefault(f'{r.op_string}|{r.op_symbol}', []).append((x, y))
            except Exception:
                pass
        _label_index[variant] = {k: v for k, v in sorted(idx.items())}
    return _label_index[variant]


_recursive_index = {}


def recursive_index(variant):
    """shipped seen-rule pairs whose result is one of its own children's categories (so that a derivation can be as
    deep as the sentence is long), and those where a shipped unary rule leads from the result back to a child's
    category (two levels per word): {'right': [...], 'left': [...], 'cycle': [...]} of (x, y)"""
    if variant not in _recursive_index:
        from depccg.cat import Category
        lang = 'ja' if variant == 'ja' else 'en'
        binary, _ = grammars.real_grammar(lang)
        utab = grammars.unary_table(variant)
        _, unary = grammars.real_grammar(lang, None, utab)
        pairs, _, _ = gen.seen_index(variant)
        ures = {}
        for src in utab:
            try:
                ures[str(src)] = [str(u.cat) for u in unary(src)]
            except Exception:
                pass
        idx = {'right': [], 'left': [], 'cycle_right': [], 'cycle_left': []}
        for x, y in pairs:
            try:
                res = binary(Category.parse(x), Category.parse(y))
            except Exception:
                continue
            for r in res[:1]:
                c = str(r.cat)
                if c == y:
                    idx['right'].append((x, y))
                if c == x:
                    idx['left'].append((x, y))
                if y in ures.get(c, ()):
                    idx['cycle_right'].append((x, y))
                if x in ures.get(c, ()):
                    idx['cycle_left'].append((x, y))
        _recursive_index[variant] = {k: sorted(set(v)) for k, v in idx.items()}
    return _recursive_index[variant]


def tree_levels(tree):
    best, stack = 0, [(tree, 1)]
    while stack:
        node, d = stack.pop()
        best = max(best, d)
        if not node.is_leaf:
            stack.extend((c, d + 1) for c in node.children)
    return best


UNUSUAL = ['"', "'", "it's", '&', '&amp;', '<', '>', 'a<b', '</s>', 'x>y', '%', '\\', '日本', 'é', '(', ')', '[', '{', 'a|b', '#',
           '1,000', 'U.S.', ';', '--', '*', '_', 'a_b', '?', '!']


def _unusual_words(rng, sentence):
    """legal but unusual token texts (quotes, markup characters, brackets, non-ASCII)"""
    if rng.random() < 0.4:
        for i in range(len(sentence['words'])):
            if rng.random() < 0.5:
                sentence['words'][i] = rng.choice(UNUSUAL)


def _split_records(text, fmt):
    """{sentence number: [records]} for the line-oriented formats"""
    header = re.compile(r'^# ID=(\d+)$' if fmt == 'conll' else r'^ID=(\d+), log probability=')
    out = {}
    cur = None
    for line in text.split('\n'):
        m = header.match(line)
        if m:
            cur = int(m.group(1))
            out.setdefault(cur, []).append([])
            if fmt != 'conll':
                out[cur][-1].append(header.sub('ID=*, log probability=', line))
            continue
        if cur is not None:
            out[cur][-1].append(line)
    for recs in out.values():
        for r in recs:
            while r and r[-1] == '':
                r.pop()
    return out


def count_records(text, fmt):
    if fmt == 'xml':
        return len(set(re.findall(r'<ccg [^>]*sentence="(\d+)"', text)))
    if fmt == 'jigg_xml':
        return len(re.findall(r'<sentence[ >]', text))
    if fmt == 'json':
        return len(json.loads(text))
    if fmt == 'html':
        return len(re.findall(r'<p>ID=\d+:', text))
    if fmt == 'prolog':
        return len(set(re.findall(r'(?m)^ccg\((\d+),', text)))
    raise KeyError(fmt)


class C19(ParserSessionProp):
    id = 'C19'
    families = ['en', 'en-seen', 'ja', 'ja-seen']
    max_len = 6
    fault_classes = ('inband', 'inband', 'none')
    rich_tokens = True
    nbest_choices = (1, 1, 2, 3)
    rule = ('case = (batch returned by the real parser in a simulated session with the real en/ja grammars, shipped '
            'unary tables and in-band faults F1-F3; output format from the CLI choice list of that language).  The swarm '
            'draws the lexicon from shipped seen-rule pairs that make each combinator label fire, cycling through the '
            'labels.  Oracles: rendering raises nothing; in line-oriented formats the records of the parsed sentences equal '
            'their records in a batch without the failed sentences; in document formats the number of sentence records '
            'equals the batch size.  Distinct = digest of (batch canonical form, format); non-trivial = the batch holds at '
            'least one failure placeholder and at least one parse.')

    corpus_every = {'quick': 200, 'thorough': 150}

    def corpus_run(self, index, tier):
        e = self.corpus_every.get(tier, 0)
        return bool(e) and index % e == e // 3

    def generate_corpus(self, seed, index, tier, options):
        rng = gen.stream(seed, 'C19:corpus', index)
        variant = rng.choice(['en', 'en_rebank', 'ja'])
        return {'prop': self.id, 'seed': seed, 'index': index, 'corpus': {
            'variant': variant, 'order_seed': rng.getrandbits(30), 'slice': rng.choice([0, 0, 20, 500]),
            'placeholders': rng.choice([0, 3, 40]), 'token_style': rng.choice(['plain', 'rich'])}}

    def execute_corpus(self, spec):
        """a corpus-sized document in one process: one derivation per shipped seen-rule pair (built from the grammar's own
        results, > 1000 distinct categories, every binary label, unary steps from the shipped table) plus failure
        placeholders, rendered in every CLI format as one document or in slices.  Capacity limits, memo tables and per-
        process state inside the printers only show at this size."""
        import random as _random
        from depccg.cat import Category
        from depccg.tree import Tree, ScoredTree
        from depccg.types import Token
        from depccg.printer import to_string
        from depccg.lang import set_global_language_to, get_global_language
        c = spec['corpus']
        variant = c['variant']
        lang = 'ja' if variant == 'ja' else 'en'
        stats = new_stats()
        binary, _ = grammars.real_grammar(lang)
        pairs, _, _ = gen.seen_index(variant)
        utab = grammars.unary_table(variant)
        _, unary = grammars.real_grammar(lang, None, utab)
        rng = _random.Random(c['order_seed'])

        def tok(w):
            if c['token_style'] == 'rich' and lang == 'en':
                return Token(word=w, lemma=w, pos='NN', entity='O', chunk='I-NP')
            return Token.of_word(w)
        doc = []
        cats = set()
        for k, (x, y) in enumerate(pairs):
            cx, cy = Category.parse(x), Category.parse(y)
            try:
                res = binary(cx, cy)
            except Exception:
                continue
            for r in res[:2]:
                left = Tree.make_terminal(tok(f'a{k}'), cx)
                right = Tree.make_terminal(tok(f'b{k}'), cy)
                t = Tree.make_binary(r.cat, left, right, r.op_string, r.op_symbol, r.head_is_left)
                doc.append([ScoredTree(t, -1.0 - (k % 7))])
                cats.update([str(cx), str(cy), str(r.cat)])
        for src, targets in utab.items():
            for ur in unary(src):
                child = Tree.make_terminal(tok('u'), src)
                t = Tree.make_unary(ur.cat, child, ur.op_string, ur.op_symbol)
                doc.append([ScoredTree(t, -2.0)])
        for _ in range(c['placeholders']):
            doc.insert(rng.randrange(len(doc) + 1),
                       [ScoredTree(Tree.make_terminal('FAILED', Category.parse('NP')), -float('inf'))])
        rng.shuffle(doc)
        bump(stats, 'corpus_runs')
        stats['counters']['largest_document_sentences'] = len(doc)
        stats['counters']['largest_document_distinct_categories'] = len(cats)
        violations = []
        saved = get_global_language()
        set_global_language_to(lang)
        try:
            for fmt in cli_formats(lang):
                bump(stats, 'evaluations')
                add_set(stats, 'nontrivial', digest(('corpus', variant, fmt, c['slice'], c['placeholders'])))
                step = c['slice'] or len(doc)
                try:
                    n_records = 0
                    for start in range(0, len(doc), step):
                        text = to_string(copy.deepcopy(doc[start:start + step]), fmt)
                        if fmt not in LINE_FORMATS:
                            try:
                                n_records += count_records(text, fmt)
                            except Exception as e2:  # noqa
                                violations.append(Violation(
                                    property=self.id, oracle='document_well_formed',
                                    message=f'{fmt} output cannot be decoded: {type(e2).__name__}: {str(e2)[:100]}',
                                    signature={'format': fmt, 'lang': lang}))
                                n_records = len(doc)
                                break
                    if fmt not in LINE_FORMATS and n_records != len(doc):
                        violations.append(Violation(
                            property=self.id, oracle='one_record_per_sentence',
                            message=f'{fmt}: {n_records} sentence records for a document of {len(doc)} sentences',
                            signature={'format': fmt, 'lang': lang}))
                except Exception as e:  # noqa
                    violations.append(Violation(
                        property=self.id, oracle='renders_without_error',
                        message=(f'{lang} document of {len(doc)} sentences ({len(cats)} distinct categories, slices of {step}) '
                                 f'cannot be rendered as {fmt}: {type(e).__name__}: {str(e)[:120]}'),
                        signature={'format': fmt, 'lang': lang, 'exc': type(e).__name__, 'trigger': 'corpus'}))
        finally:
            set_global_language_to(saved)
        stats['samples'].append({'corpus': c, 'sentences': len(doc), 'distinct_categories': len(cats)})
        return {'violations': violations[:1], 'stats': stats, 'log_digest': digest((c, len(doc), [v['oracle'] for v in violations]))}

    deep_every = {'quick': 90, 'thorough': 60}

    def deep_run(self, index, tier):
        e = self.deep_every.get(tier, 0)
        return bool(e) and index % e == e // 2

    def generate_deep(self, seed, index, tier, options):
        rng = gen.stream(seed, 'C19:deep', index)
        variant = rng.choice(['en', 'en_rebank', 'ja'])
        idx = recursive_index(variant)
        kind = rng.choice([k for k in ('right', 'left', 'cycle_right', 'cycle_left', 'cycle_right', 'cycle_left') if idx[k]])
        # sentences up to the default max_length of 250 words; with a unary step at every level the derivation has
        # two levels per word (beyond ~450 levels several formats exhaust the interpreter's stack: known finding)
        n = rng.choice([60, 120, 165, 200, 215] if kind.startswith('cycle') else [120, 165, 200, 250, 250])
        if kind.startswith('cycle') and rng.random() < 0.12:
            n = 250
        return {'prop': self.id, 'seed': seed, 'index': index, 'deep': {
            'variant': variant, 'kind': kind, 'pick': rng.randrange(len(idx[kind])), 'words': n,
            'layout': rng.sample(['deep', 'short', 'placeholder'], 3), 'token_style': rng.choice(['plain', 'rich'])}}

    def execute_deep(self, spec):
        """a batch of three: a sentence whose derivation is a chain as deep as the sentence is long (or twice that, with
        a shipped unary rule at every level), a short sentence and a failure placeholder, in every CLI format"""
        from depccg.cat import Category
        from depccg.tree import Tree, ScoredTree
        from depccg.types import Token
        from depccg.printer import to_string
        from depccg.lang import set_global_language_to, get_global_language
        d = spec['deep']
        variant = d['variant']
        lang = 'ja' if variant == 'ja' else 'en'
        stats = new_stats()
        binary, _ = grammars.real_grammar(lang)
        _, unary = grammars.real_grammar(lang, None, grammars.unary_table(variant))
        x, y = recursive_index(variant)[d['kind']][d['pick']]
        cx, cy = Category.parse(x), Category.parse(y)
        r = binary(cx, cy)[0]
        rightward = d['kind'] in ('right', 'cycle_right')
        back = str(cy if rightward else cx)
        ur = None
        if d['kind'].startswith('cycle'):
            ur = [u for u in unary(r.cat) if str(u.cat) == back][0]

        def tok(w):
            if d['token_style'] == 'rich' and lang == 'en':
                return Token(word=w, lemma=w, pos='NN', entity='O', chunk='I-NP')
            return Token.of_word(w)

        def chain(n):
            t = Tree.make_terminal(tok('w0'), cy if rightward else cx)
            for i in range(1, n):
                leaf = Tree.make_terminal(tok(f'w{i}'), cx if rightward else cy)
                t = (Tree.make_binary(r.cat, leaf, t, r.op_string, r.op_symbol, r.head_is_left) if rightward
                     else Tree.make_binary(r.cat, t, leaf, r.op_string, r.op_symbol, r.head_is_left))
                if ur is not None and i < n - 1:
                    t = Tree.make_unary(ur.cat, t, ur.op_string, ur.op_symbol)
            return t

        def make_doc():
            parts = {'deep': [ScoredTree(chain(d['words']), -3.0)], 'short': [ScoredTree(chain(2), -1.0)],
                     'placeholder': [ScoredTree(Tree.make_terminal('FAILED', Category.parse('NP')), -float('inf'))]}
            return [parts[k] for k in d['layout']]
        levels = tree_levels(chain(d['words']))
        bump(stats, 'deep_runs')
        stats['counters']['deepest_derivation_levels'] = levels
        stats['counters']['longest_rendered_sentence_words'] = d['words']
        violations = []
        saved = get_global_language()
        set_global_language_to(lang)
        try:
            for fmt in cli_formats(lang):
                bump(stats, 'evaluations')
                add_set(stats, 'nontrivial', digest(('deep', variant, d['kind'], d['pick'], d['words'], fmt)))
                sig = {'format': fmt, 'lang': lang, 'trigger': 'deep',
                       'derivation_levels': 'at least 450' if levels >= 450 else str(levels)}
                try:
                    text = to_string(make_doc(), fmt)
                except Exception as e:  # noqa
                    violations.append(Violation(
                        property=self.id, oracle='renders_without_error',
                        message=(f'{lang} batch {d["layout"]} whose deep sentence has {d["words"]} words and a derivation of '
                                 f'{levels} levels ({x} {y} -> {r.cat}{" -> " + str(ur.cat) if ur else ""}) cannot be rendered as '
                                 f'{fmt}: {type(e).__name__}: {str(e)[:100]}'),
                        signature=dict(sig, exc=type(e).__name__)))
                    continue
                if fmt not in LINE_FORMATS:
                    try:
                        n_records = count_records(text, fmt)
                    except Exception as e2:  # noqa
                        violations.append(Violation(
                            property=self.id, oracle='document_well_formed',
                            message=f'{fmt} output cannot be decoded: {type(e2).__name__}: {str(e2)[:100]}',
                            signature={'format': fmt, 'lang': lang}))
                        continue
                    if n_records != 3:
                        violations.append(Violation(
                            property=self.id, oracle='one_record_per_sentence',
                            message=f'{fmt}: {n_records} sentence records for a batch of 3 (one of {d["words"]} words)',
                            signature={'format': fmt, 'lang': lang}))
        finally:
            set_global_language_to(saved)
        stats['samples'].append({'deep': d, 'levels': levels})
        return {'violations': violations, 'stats': stats,
                'log_digest': digest((d, levels, [(v['oracle'], v['signature'].get('format')) for v in violations]))}

    def execute(self, spec, executor_mode=None):
        if 'corpus' in spec:
            return self.execute_corpus(spec)
        if 'deep' in spec:
            return self.execute_deep(spec)
        return super().execute(spec, executor_mode)

    def prepare(self):
        for v in ('en', 'en_rebank', 'ja'):
            label_index(v)
            recursive_index(v)
        cli_formats('en')

    def generate(self, seed, index, tier, options):
        if self.corpus_run(index, tier):
            return self.generate_corpus(seed, index, tier, options)
        if self.deep_run(index, tier):
            return self.generate_deep(seed, index, tier, options)
        rng = gen.stream(seed, 'C19:label', index)
        variant = rng.choice(['en', 'en_rebank', 'ja', 'ja'])
        idx = label_index(variant)
        labels = list(idx)
        label = labels[index % len(labels)]
        self._want = (variant, rng.choice(idx[label]), label)
        spec = super().generate(seed, index, tier, options)
        spec['wanted_label'] = label
        style = rng.choice(['rich', 'rich', 'plain'])
        for s in spec['world']['sentences']:
            s['token_style'] = style
            _unusual_words(rng, s)
        return spec

    def knobs(self, rng, tier, options):
        k = super().knobs(rng, tier, options)
        variant = self._want[0]
        k['family'] = ('ja' if variant == 'ja' else 'en') + rng.choice(['', '-seen'])
        k['n_calls'] = rng.randint(1, 3)
        return k

    def world_kwargs(self, rng, knobs):
        return {'want_pair': self._want[1], 'variant': self._want[0]}

    def check_call(self, world, op, rec, stats, spec):
        from depccg.printer import to_string
        from depccg.lang import set_global_language_to, get_global_language
        out = []
        if rec.exception is not None or not rec.responses:
            return out
        lang = world.g['lang']
        results = rec.responses
        failed = [refparser.is_placeholder(r) for r in results]
        parsed_only = [r for r, f in zip(results, failed) if not f]
        mixed = any(failed) and len(parsed_only) > 0
        for r in parsed_only:
            for st in r:
                self._labels(st.tree, lang, stats)
        if any(failed):
            bump(stats, 'probe:batch_with_placeholder')
        if mixed:
            bump(stats, 'probe:batch_mixing_parsed_and_failed')
        saved = get_global_language()
        set_global_language_to(lang)
        try:
            for fmt in cli_formats(lang):
                bump(stats, 'evaluations')
                bump(stats, 'render:' + fmt)
                key = digest(([refparser.canon_response(r) for r in results], fmt))
                if mixed:
                    add_set(stats, 'nontrivial', key)
                batch = copy.deepcopy(results)
                try:
                    text = to_string(batch, fmt)
                except Exception as e:  # noqa
                    trigger = self._trigger(results, failed, fmt, to_string, e)
                    out.append(Violation(
                        oracle='renders_without_error',
                        message=(f'{lang} batch of {len(results)} sentences ({sum(failed)} failed) cannot be rendered as '
                                 f'{fmt}: {type(e).__name__}: {str(e)[:120]} (trigger: {trigger})'),
                        signature={'format': fmt, 'lang': lang, 'exc': type(e).__name__, 'trigger': trigger}))
                    continue
                # the documented second call form: the n-best list of ONE sentence (a flat list of ScoredTree), as a
                # caller uses it when it renders sentence by sentence.  What renders inside a document renders alone
                flat_bad = None
                for pos in range(len(results)):
                    bump(stats, 'flat_form_renderings')
                    try:
                        to_string(copy.deepcopy(results[pos]), fmt)
                    except Exception as e:  # noqa
                        flat_bad = (pos, e)
                        break
                if flat_bad is not None:
                    pos, e = flat_bad
                    out.append(Violation(
                        oracle='renders_without_error',
                        message=(f'{lang} sentence {pos + 1} of a batch that renders as {fmt} cannot be rendered in the single-sentence '
                                 f'call form to_string(results[i], {fmt!r}): {type(e).__name__}: {str(e)[:120]}'),
                        signature={'format': fmt, 'lang': lang, 'exc': type(e).__name__, 'trigger': 'flat_form',
                                   'placeholder': bool(failed[pos])}))
                    continue
                if fmt in LINE_FORMATS:
                    if not parsed_only:
                        continue
                    try:
                        ref_text = to_string(copy.deepcopy(parsed_only), fmt)
                    except Exception:
                        continue
                    got = _split_records(text, fmt)
                    want = _split_records(ref_text, fmt)
                    k = 0
                    for pos, f in enumerate(failed):
                        if f:
                            continue
                        k += 1
                        if got.get(pos + 1) != want.get(k):
                            out.append(Violation(
                                oracle='failed_sentence_does_not_disturb_others',
                                message=(f'{fmt}: the record of sentence {pos + 1} differs from its record in a batch without '
                                         f'the failed sentences'), signature={'format': fmt, 'lang': lang}))
                            break
                else:
                    try:
                        n = count_records(text, fmt)
                    except Exception as e:  # noqa
                        out.append(Violation(oracle='document_well_formed',
                                             message=f'{fmt} output cannot be decoded: {type(e).__name__}: {e}',
                                             signature={'format': fmt, 'lang': lang}))
                        continue
                    if n != len(results):
                        out.append(Violation(
                            oracle='one_record_per_sentence',
                            message=f'{fmt}: {n} sentence records for a batch of {len(results)}',
                            signature={'format': fmt, 'lang': lang}))
        finally:
            set_global_language_to(saved)
        return out

    def _labels(self, tree, lang, stats):
        def rec(node):
            if node.is_leaf:
                return
            kind = 'unary' if len(node.children) == 1 else 'binary'
            add_set(stats, f'labels_seen_{lang}', f'{kind}:{node.op_string}|{node.op_symbol}')
            for c in node.children:
                rec(c)
        rec(tree)

    def _trigger(self, results, failed, fmt, to_string, exc):
        """narrowest description of what makes the rendering fail"""
        ok_without = False
        parsed_only = [r for r, f in zip(results, failed) if not f]
        if any(failed):
            if not parsed_only:
                return 'placeholder'
            try:
                to_string(copy.deepcopy(parsed_only), fmt)
                ok_without = True
            except Exception:
                pass
        if ok_without:
            return 'placeholder'
        # a parsed tree: name the label if the message carries one
        if isinstance(exc, KeyError):
            return f'label {exc.args[0]!r}' if exc.args else 'label'
        # find the first tree that fails alone and describe its offending node kinds
        for r in parsed_only:
            for st in r:
                try:
                    to_string([[st]], fmt)
                except Exception as e2:  # noqa
                    labels = sorted({f'{n.op_string}' for n in _nodes(st.tree) if len(n.children) == 1 and not n.is_leaf})
                    return f'tree with unary labels {labels}' if labels else 'tree'
        return 'batch'

    def shrink_candidates(self, spec):
        if 'corpus' in spec:
            return
        if 'deep' in spec:
            for n in (60, 120, 165, 200, 215, 226, 240):
                if n < spec['deep']['words']:
                    cand = copy.deepcopy(spec)
                    cand['deep']['words'] = n
                    yield cand
            return
        for c in super().shrink_candidates(spec):
            yield c

    def confirm(self, spec, violation):
        if 'corpus' in spec or 'deep' in spec:
            return True, 'no pooled call'
        return super().confirm(spec, violation)

    def evidence_extra(self, stats):
        out = {}
        for lang, variants in (('en', ('en', 'en_rebank')), ('ja', ('ja',))):
            universe = set()
            for v in variants:
                universe |= {'binary:' + k for k in label_index(v)}
            seen = stats['sets'].get(f'labels_seen_{lang}', set())
            out[f'labels_{lang}_binary_universe'] = sorted(universe)
            out[f'labels_{lang}_seen'] = sorted(seen)
            out[f'labels_{lang}_binary_never_seen'] = sorted(universe - seen)
        out['formats'] = {'en': cli_formats('en'), 'ja': cli_formats('ja'), 'skipped': list(SKIP)}
        return out


def _nodes(tree):
    out = []

    def rec(n):
        out.append(n)
        if not n.is_leaf:
            for c in n.children:
                rec(c)
    rec(tree)
    return out


PROP = C19()
