"""C20 -- PTB / Japanese-bank text written by depccg reads back to the same tree;
a torn (crashed-writer) PTB line is rejected.  The torn-write clause is a
crash-point property: the writer is crashed at EVERY byte offset of the chosen
records (fault_enumeration); the round trip is its fault-free configuration."""
import copy
import os
import shutil
import tempfile

from depsim import env, gen, refparser, session
from depsim.props.base import ParserSessionProp
from depsim.runner import Violation, add_set, bump, digest, new_stats

EN_WORDS = ['ID=7', 'ID', 'UUID=42', 'log', 'ROOT', '(ROOT', 'a)b', ':)-', '1)a', 'a_b', '_', 'x[1]', '42', '3.14', 'dog', 'Mr.', "it's", '(', '[', ']', '{', 'a(b', '<x>', 'x>y', '&amp;', 'ü', '日本', '%', '1,000', '"', "'",
            ')', 'a)', '))', '(a)', '-', '--', 'U.S.', ';', 'e=mc2']
JA_WORDS = ['ID=7', 'ID', 'UUID=42', 'SSEQ', '<', '>B', 'ADV0', '犬', 'が', 'は', '走る', '(', ')', '[', ']', 'abc', '１２', 'を', '、', '。', 'x>y', '&', 'た', 'ー']


def random_tree(rng, cats, words, lang, max_leaves=5, symbols=None, token_style='plain'):
    """an arbitrary well-formed tree over the given categories (not grammar-licensed)"""
    import random as _random
    from depccg.tree import Tree
    from depccg.types import Token
    n = rng.randint(1, max_leaves)
    trng = _random.Random(rng.getrandbits(30)) if token_style != 'plain' else None

    def leaf():
        w = rng.choice(words)
        if token_style == 'annotated' and lang == 'ja':
            # a token as annotate_using_janome / jigg leaves it: the dictionary form differs from the surface for
            # inflected words, equals it for others, is '*' for unknown words
            base = trng.choice([w, w, '*', w + 'る', '食べる'])
            tok = Token(word=w, surf=w, pos='動詞', pos1='自立', pos2='*', pos3='*', inflectionForm='連用形',
                        inflectionType='一段', reading='ヨミ', base=base)
        elif token_style == 'annotated':
            tok = Token(word=w, lemma=trng.choice([w, w.lower() + 'e', 'be']), pos='VBD', entity='O', chunk='I-VP')
        else:
            tok = Token.of_word(w)
        return Tree.make_terminal(tok, rng.choice(cats))

    def build(k):
        if k == 1:
            t = leaf()
        else:
            split = rng.randint(1, k - 1)
            l, r = build(split), build(k - split)
            if lang == 'ja':
                sym = rng.choice(symbols['binary'])
                t = Tree.make_binary(rng.choice(cats), l, r, 'x', sym, False)
            else:
                t = Tree.make_binary(rng.choice(cats), l, r, 'fa', '>', rng.random() < 0.5)
        while rng.random() < 0.25:
            if lang == 'ja':
                sym = rng.choice(symbols['unary'])
                t = Tree.make_unary(rng.choice(cats), t, sym, sym)
            else:
                t = Tree.make_unary(rng.choice(cats), t)
        return t
    return build(n)


_nb_triples = []


def nb_triples():
    """(x, y, parent) over the shipped English seen rules where parent is the grammar's result for (x, y) with [nb]
    added to one bare NP/N (the CCGbank analysis of possessives and determiners has such nodes): the file's category
    differs from the rule's result only by the feature the English rules ignore"""
    if not _nb_triples:
        import random as _random
        from depccg.cat import Category
        from depsim.props.c14 import _toggle_nb
        from depsim import grammars
        binary, _ = grammars.real_grammar('en')
        pairs, _, _ = gen.seen_index('en')
        r = _random.Random(20261003)
        for x, y in pairs[::7]:
            try:
                res = binary(Category.parse(x), Category.parse(y))
            except Exception:
                continue
            for q in res[:1]:
                c = str(q.cat)
                if '[nb]' not in c:
                    t = _toggle_nb(c, r)
                    if t:
                        _nb_triples.append((x, y, t))
        if not _nb_triples:
            _nb_triples.append(('NP', '(NP[nb]/N)\\NP', 'NP[nb]/N'))
    return _nb_triples


def same_tree(a, b, lang, check_symbols):
    """first difference between an original tree a and a re-read tree b (None = same)"""
    from depccg.utils import normalize
    if a.cat != b.cat:
        try:
            shown = str(b.cat)
        except Exception:
            shown = '<malformed category object>'
        return f'category: {a.cat} read back as {shown}'
    if a.is_leaf != b.is_leaf:
        return f'shape: leaf/non-leaf mismatch at {a.cat}'
    if a.is_leaf:
        wa = a.children[0]['word']
        wb = b.children[0].get('word')
        if wa != wb and normalize(wa) != wb:
            return f'word: {wa!r} read back as {wb!r}'
        return None
    if len(a.children) != len(b.children):
        return f'shape: node {a.cat}: {len(a.children)} children read back as {len(b.children)}'
    if check_symbols and a.op_symbol != b.op_symbol:
        return f'symbol: node {a.cat}: rule symbol {a.op_symbol!r} read back as {b.op_symbol!r}'
    for x, y in zip(a.children, b.children):
        d = same_tree(x, y, lang, check_symbols)
        if d:
            return d
    return None


def _word_class(tree):
    ws = [l.children[0]['word'] for l in tree.leaves]
    if any(w.endswith(')') for w in ws):
        return 'word_ends_with_close_paren'
    if any(w.startswith('(') for w in ws):
        return 'word_starts_with_open_paren'
    if any(('(' in w or ')' in w) for w in ws):
        return 'word_inner_paren'          # e.g. a(b, a)b : these DO round-trip on the pinned tree
    return 'plain'


class C20(ParserSessionProp):
    id = 'C20'
    level = 'fault_enumeration'
    families = ['en', 'en-seen', 'ja', 'ja-seen']
    max_len = 5
    fault_classes = ('none',)
    nbest_choices = (1, 2)
    rule = ('case = (file written with the real ptb_of / ja_of printers from parser output of simulated en/ja sessions and '
            'from arbitrary trees incl. bracket tokens, with/without ID lines, ja categories optionally decorated with the '
            "bank's {..} annotations and _.. suffix; writer crash offset).  Fault-free configuration: the real reader must "
            'return the same categories, shape, words (and ja rule symbols).  Fault F8, enumerated: the file is cut at EVERY '
            'byte offset of the chosen record (quick: last record; thorough: every record); every earlier complete record '
            'must read back identical and the torn PTB record must raise unless the prefix is the complete record (only '
            'trailing whitespace lost) -- it never yields a tree.  Distinct = digest of (file text, offset); non-trivial = '
            'offset strictly inside a record.')
    assumptions = ['crash model: a killed writer leaves a byte prefix of the file (no reordering of bytes inside one file)']
    tiers = {'quick': (3000, 45), 'thorough': (300000, 900)}

    def knobs(self, rng, tier, options):
        k = super().knobs(rng, tier, options)
        k['n_calls'] = 1
        k['use_beta'] = False
        return k

    def prepare(self):
        nb_triples()           # computed once in the parent, inherited by the per-run children

    def generate(self, seed, index, tier, options):
        spec = super().generate(seed, index, tier, options)
        rng = gen.stream(seed, 'C20:files', index)
        op = spec['ops'][0]
        op['batch'] = list(range(len(spec['world']['sentences'])))
        op.pop('single', None)
        op.pop('fault', None)
        op['max_chunk_size'] = 50
        op.pop('schedule', None)
        lang = spec['world']['grammar']['lang']
        spec['files'] = {
            'lang': lang,
            'fmt': 'ptb' if lang == 'en' else rng.choice(['ja', 'ja', 'ptb']),
            'id_lines': rng.random() < 0.5,
            'n_random_trees': rng.randint(1, 4),
            'tree_seed': rng.getrandbits(32),
            'decorate': rng.choice([None, None, 'braces', 'suffix', 'both']),
            'torn': 'every' if tier == 'thorough' else 'last',
            'trailing_newline': rng.random() < 0.8,
            'paren_words': rng.random() < 0.3,
            'blank_lines': rng.random() < 0.2,
            'token_style': rng.choice(['plain', 'annotated']),
            'stack_scan': gen.stream(seed, 'C20:stack', index).random() < 0.3,
            'nb_parent': gen.stream(seed, 'C20:nb', index).random() < 0.3,
            'huge': (lambda r: r.choice([17, 33]) if r.random() < 0.004 else 0)(gen.stream(seed, 'C20:huge', index)),
        }
        return spec

    def check_call(self, world, op, rec, stats, spec):
        world.c20_results = rec.responses if rec.exception is None else None
        return []

    # ------------------------------------------------------------ the storage stage
    def execute(self, spec, executor_mode=None):
        result = super().execute(spec, executor_mode)
        world = self._last_world
        stats = result['stats']
        f = spec['files']
        lang = f['lang']
        import random
        from depccg.lang import set_global_language_to, get_global_language
        rng = random.Random(f['tree_seed'])
        trees = []
        for resp in (getattr(world, 'c20_results', None) or []):
            if not refparser.is_placeholder(resp):
                for st in resp:
                    trees.append(('parsed', st.tree))
        symbols = {'binary': ['>', '<', '>B', '<B1', '<B2', '<B3', '<B4', '>Bx1', '>Bx2', '>Bx3', 'SSEQ'],
                   'unary': ['ADNext', 'ADNint', 'ADV0', 'ADV1', 'ADV2']}
        words = JA_WORDS if lang == 'ja' else EN_WORDS
        if not f.get('paren_words'):
            words = [w for w in words if '(' not in w and ')' not in w]
        if f['fmt'] == 'ja':
            words = [w for w in words if not any(c in w for c in '/{}')]
        if lang == 'en' and f.get('nb_parent'):
            from depccg.cat import Category
            from depccg.tree import Tree
            from depccg.types import Token
            x, y, parent = rng.choice(nb_triples())
            trees.append(('arbitrary', Tree.make_binary(
                Category.parse(parent), Tree.make_terminal(Token.of_word('John'), Category.parse(x)),
                Tree.make_terminal(Token.of_word("'s"), Category.parse(y)), 'fa', '>', True)))
            bump(stats, 'probe:node_whose_category_differs_from_the_rule_result_by_nb')
        if f.get('huge'):
            # a corpus-sized file (beyond 2^24 and 2^25 characters) out of few records: leaves with URL-/base64-like tokens
            # of a megabyte each, the small trees of this run before, between and after them
            from depccg.tree import Tree
            from depccg.types import Token
            small = list(trees)
            for j in range(f['huge']):
                w = ('blob%d_' % j) + 'x' * (1 << 20)
                trees.append(('arbitrary', Tree.make_terminal(Token.of_word(w), rng.choice(world.categories))))
                if j % 6 == 5 and small:
                    trees.append(small[(j // 6) % len(small)])
            bump(stats, 'probe:file_beyond_2^24_characters')
        for _ in range(f['n_random_trees']):
            trees.append(('arbitrary', random_tree(rng, world.categories, words, lang, symbols=symbols,
                                                   token_style=f.get('token_style', 'plain'))))
        saved = get_global_language()
        set_global_language_to(lang)
        scratch_root = os.path.join(env.VERIF, '.build', 'scratch')
        os.makedirs(scratch_root, exist_ok=True)
        d = tempfile.mkdtemp(dir=scratch_root)
        log = []
        try:
            vs = self.storage_stage(trees, f, lang, d, stats, log)
        finally:
            set_global_language_to(saved)
            shutil.rmtree(d, ignore_errors=True)
        for v in vs:
            v['property'] = self.id
            v['op_index'] = len(spec['ops'])
        result['violations'].extend(vs[:1])
        result['log_digest'] = digest((result['log_digest'], log))
        if not stats['samples'] or 'file_head' not in stats['samples'][0]:
            stats['samples'].insert(0, {'file_head': getattr(self, '_last_text', '')[:300], 'files': f})
        return result

    def write_records(self, trees, f, lang):
        from depccg.printer.ptb import ptb_of
        from depccg.printer.ja import ja_of
        import re
        records = []
        for k, (origin, tree) in enumerate(trees):
            if f['fmt'] == 'ptb':
                line = ptb_of(tree)
            else:
                line = ja_of(tree)
                dec = f.get('decorate')
                if dec:
                    # decorate categories the way the bank does: {..} annotations anywhere, _.. suffix on leaf categories
                    def deco_leaf(m):
                        cat = m.group(1)
                        if dec in ('braces', 'both'):
                            cat += '{I1}'
                        if dec in ('suffix', 'both'):
                            cat += '_none'
                        return '{' + cat + ' ' + m.group(2) + '}'
                    line = re.sub(r'\{([^ {}]+) ([^ {}]+/[^ {}]*)\}', deco_leaf, line)
            header = f'ID={k + 1}, log probability=-1.00000000\n' if (f['id_lines'] and f['fmt'] == 'ptb') else ''
            records.append((header, line))
        return records

    def storage_stage(self, trees, f, lang, d, stats, log):
        from depccg.tools.reader import read_ptb
        from depccg.tools.ja.reader import read_ccgbank
        out = []
        reader = read_ptb if f['fmt'] == 'ptb' else read_ccgbank
        check_symbols = f['fmt'] == 'ja'
        try:
            records = self.write_records(trees, f, lang)
        except Exception as e:  # noqa  (printing failures are C19's subject)
            bump(stats, 'writer_raised')
            return out
        text = ''
        spans = []
        for header, line in records:
            if f.get('blank_lines') and text:
                text += '\n'                    # an empty line between records (both readers skip empty lines)
            start = len(text.encode('utf-8'))
            text += header + line + '\n'
            spans.append((start, start + len(header.encode('utf-8')), len(text.encode('utf-8')) - 1))
        if not f['trailing_newline']:
            text = text[:-1]
        self._last_text = text
        data = text.encode('utf-8')
        path = os.path.join(d, 'bank.' + f['fmt'])

        def read_all(blob):
            with open(path, 'wb') as fh:
                fh.write(blob)
            items = []
            err = None
            try:
                for item in reader(path):
                    items.append(item)
            except Exception as e:  # noqa
                err = e
            return items, err

        # ---- fault-free configuration: the round trip
        items, err = read_all(data)
        bump(stats, 'files_written')
        bump(stats, 'evaluations')
        log.append(('full', len(items), type(err).__name__ if err else None))
        for k, (origin, tree) in enumerate(trees):
            bump(stats, f'trees_{origin}')
            cls = _word_class(tree)
            if cls != 'plain':
                bump(stats, 'probe:tree_with_bracket_token')
            shape = refparser.tree_shape_stats(tree)
            if k >= len(items):
                out.append(Violation(
                    oracle='round_trip',
                    message=(f'{f["fmt"]} reader stopped at record {k + 1} of {len(trees)} with '
                             f'{type(err).__name__ if err else "no error"}: {str(err)[:100] if err else ""}; record: '
                             f'{records[k][1][:160]}'),
                    signature={'format': f['fmt'], 'kind': type(err).__name__ if err else 'short',
                               'node': 'binary' if shape['binary'] else ('unary' if shape['unary'] else 'leaf'),
                               'words': cls, 'decorate': f.get('decorate') if f['fmt'] == 'ja' else None}))
                return out
            diff = same_tree(tree, items[k].tree, lang, check_symbols)
            if diff:
                out.append(Violation(
                    oracle='round_trip',
                    message=f'{f["fmt"]} record {k + 1} ({origin}): {diff}; record: {records[k][1][:160]}',
                    signature={'format': f['fmt'], 'kind': diff.split(':')[0],
                               'words': cls, 'decorate': f.get('decorate') if f['fmt'] == 'ja' else None}))
                return out
        if err is not None or len(items) != len(trees):
            out.append(Violation(oracle='round_trip', message=f'{f["fmt"]} reader: {len(items)} trees for {len(trees)} records, error {err!r}',
                                 signature={'format': f['fmt'], 'kind': 'count'}))
            return out
        bump(stats, 'round_trips_confirmed')

        # ---- F11: the same file read under every stack budget between "fails at once" and "succeeds": a reading may
        # raise at any point, but every tree it yields before that has to be the tree that was written
        if f.get('stack_scan') and not f.get('huge'):
            from depsim import faults
            ok_in_a_row = 0
            for extra in range(6, 400):
                hit, value = faults.run_with_stack_budget(lambda: read_all(data), extra)
                items2, err2 = value if not hit else ([], RecursionError())
                if err2 is not None:
                    bump(stats, 'fault:F11_reader_hit_the_stack_limit')
                    ok_in_a_row = 0
                else:
                    ok_in_a_row += 1
                for k, item in enumerate(items2[:len(trees)]):
                    diff = same_tree(trees[k][1], item.tree, lang, check_symbols)
                    if diff:
                        out.append(Violation(
                            oracle='round_trip',
                            message=(f'{f["fmt"]} record {k + 1} read under a stack budget of {extra} frames (the ordinary reading is '
                                     f'correct): {diff}; record: {records[k][1][:160]}'),
                            signature={'format': f['fmt'], 'kind': diff.split(':')[0], 'after': 'F11'}))
                        return out
                if err2 is None and len(items2) != len(trees):
                    out.append(Violation(
                        oracle='round_trip',
                        message=(f'{f["fmt"]} reader under a stack budget of {extra} frames: {len(items2)} trees for {len(trees)} '
                                 f'records and no error'), signature={'format': f['fmt'], 'kind': 'count', 'after': 'F11'}))
                    return out
                if ok_in_a_row >= 3:
                    break
            bump(stats, 'stack_scans')

        # ---- F8: writer crashed at every byte offset of the chosen records
        if f.get('huge'):
            stats['counters']['largest_file_bytes'] = max(stats['counters'].get('largest_file_bytes', 0), len(data))
            return out            # (every byte offset of a 17-35 MB file is not affordable)
        which = range(len(records)) if f['torn'] == 'every' else [len(records) - 1]
        for k in which:
            start, body_start, end = spans[k]
            offsets = range(start, min(end + 1, len(data)) + 1)
            if f['fmt'] != 'ptb':
                # the property states no behaviour for a torn Japanese line (the reader need not even
                # terminate on one), so the writer is only crashed at record boundaries there
                offsets = [o for o in (start, end, min(end + 1, len(data))) if o <= len(data)]
            # the readers are line-oriented: keep at most two earlier complete records in front of the torn one
            first = max(0, k - 2)
            base = spans[first][0]
            for offset in offsets:
                blob = data[base:offset]
                try:
                    blob.decode('utf-8')
                except UnicodeDecodeError:
                    bump(stats, 'fault:F8_cut_inside_multibyte_character')
                bump(stats, 'evaluations')
                bump(stats, 'fault:F8_writer_killed_at_offset')
                inside = body_start < offset < end
                if inside:
                    add_set(stats, 'nontrivial', digest((text, offset)))
                try:
                    items, err = read_all(blob)
                except Exception as e:  # noqa
                    raise
                # earlier complete records identical
                for j in range(min(k - first, len(items))):
                    diff = same_tree(trees[first + j][1], items[j].tree, lang, check_symbols)
                    if diff:
                        out.append(Violation(oracle='complete_records_survive_torn_tail',
                                             message=f'{f["fmt"]}: with the file cut at byte {offset}, complete record {first + j + 1}: {diff}',
                                             signature={'format': f['fmt']}))
                        return out
                if f['fmt'] != 'ptb':
                    expect = (k - first) + (1 if offset >= end else 0)
                    if len(items) != expect or err is not None:
                        out.append(Violation(
                            oracle='complete_records_survive_torn_tail',
                            message=(f'ja file cut at the record boundary {offset}: {len(items)} trees read, {expect} complete '
                                     f'records present ({err!r})'),
                            signature={'format': 'ja', 'kind': 'boundary'}))
                        return out
                if f['fmt'] == 'ptb':
                    tail = data[body_start:offset].decode('utf-8', 'replace')
                    complete = tail.strip() == records[k][1].strip()
                    if len(items) > k - first:
                        if complete:
                            bump(stats, 'probe:cut_after_complete_record_only_whitespace_lost')
                        else:
                            out.append(Violation(
                                oracle='torn_ptb_record_rejected',
                                message=(f'ptb file cut at byte {offset} (record {k + 1} torn to {tail[-60:]!r}) still yields '
                                         f'a tree for the torn record'),
                                signature={'format': 'ptb', 'kind': 'partial_tree', 'words': _word_class(trees[k][1])}))
                            return out
                    elif inside and err is not None:
                        bump(stats, 'torn_records_rejected')
                    if len(items) < k - first:
                        out.append(Violation(
                            oracle='complete_records_survive_torn_tail',
                            message=f'ptb file cut at byte {offset}: only {len(items)} of {k - first} complete records were read ({err!r})',
                            signature={'format': 'ptb', 'kind': 'lost_complete_record'}))
                        return out
        return out

    def shrink_candidates(self, spec):
        f = spec.get('files', {})
        if f.get('n_random_trees', 0) > 0:
            cand = copy.deepcopy(spec)
            cand['files']['n_random_trees'] -= 1
            yield cand
        if f.get('id_lines'):
            cand = copy.deepcopy(spec)
            cand['files']['id_lines'] = False
            yield cand
        if f.get('decorate'):
            cand = copy.deepcopy(spec)
            cand['files']['decorate'] = None
            yield cand
        op = spec['ops'][0]
        if len(op['batch']) > 1:
            for j in range(len(op['batch'])):
                cand = copy.deepcopy(spec)
                del cand['ops'][0]['batch'][j]
                yield cand
        if op.get('nbest', 1) > 1:
            cand = copy.deepcopy(spec)
            cand['ops'][0]['nbest'] = 1
            yield cand
        for c in list(range(1, 20)):
            if f.get('tree_seed', 0) != c and f.get('n_random_trees', 0) == 1 and False:
                yield None


PROP = C20()
