"""Reference models: an exhaustive chart parser over category *values* (no
agenda, no heuristic, no cache, no ids), the beam model, and the per-tree
oracles (licensing, score accounting, labels).  Shares nothing with parsing.h /
parsing.pyx except the grammar callables and the score matrices."""
import functools
import math
import sys
import numpy


def deep(fn):
    """the harness's own walks over derivations recurse once or twice per level; they must not be the
    component that gives up on a 600-word chain (the code under test keeps the interpreter's limit)"""
    @functools.wraps(fn)
    def wrapper(*args, **kwargs):
        old = sys.getrecursionlimit()
        if old >= 50000:
            return fn(*args, **kwargs)
        sys.setrecursionlimit(60000)
        try:
            return fn(*args, **kwargs)
        finally:
            sys.setrecursionlimit(old)
    return wrapper


class RefOverflow(Exception):
    """the sentence is too ambiguous for exhaustive enumeration (skipped, counted)"""


class GrammarMemo(object):
    """fresh grammar results by category value, memoised per world"""

    def __init__(self, binary, unary):
        self._binary = binary
        self._unary = unary
        self._b = {}
        self._u = {}

    def binary(self, x, y):
        key = (x, y)
        r = self._b.get(key)
        if r is None:
            r = list(self._binary(x, y))
            self._b[key] = r
        return r

    def unary(self, x):
        r = self._u.get(x)
        if r is None:
            r = list(self._unary(x))
            self._u[x] = r
        return r


# ------------------------------------------------------------------ beam model (C16)

def beam_model(row, pruning_size, use_beta, beta, rel_eps=1e-5):
    """independent statement of the beam rule for one word.
    returns (surely_admitted, maybe_admitted) as sets of tag indices;
    maybe ⊇ surely; tags outside maybe are surely excluded."""
    row = numpy.asarray(row, dtype=numpy.float64)
    n = len(row)
    best = row.max()
    surely, maybe = set(), set()
    srt = numpy.sort(row)
    greater_all = n - numpy.searchsorted(srt, row, side='right')
    geq_all = n - numpy.searchsorted(srt, row, side='left')
    # a tag with pruning_size or more strictly better tags is outside the beam whatever else holds
    for t in numpy.nonzero(greater_all < pruning_size)[0].tolist():
        s = row[t]
        greater = int(greater_all[t])
        geq = int(geq_all[t])
        sure_prune = geq <= pruning_size          # inside the k best whatever the tie order
        may_prune = greater < pruning_size        # inside the k best for some tie order
        if use_beta:
            # admitted iff p >= beta * p_best  <=>  s - best >= log(beta)
            margin = (s - best) - math.log(beta)
            band = rel_eps * max(1.0, abs(math.log(beta))) + 1e-6 * max(1.0, abs(s), abs(best))
            cutoff = best + math.log(beta)
            sure_beta = margin > band
            may_beta = margin >= -band
            if cutoff < -87.0:
                # below the normal range of single precision the threshold exp(best)*beta is a denormal with only a few
                # significant bits (or 0).  A float implementation may then admit a tag whose probability is up to 1.5
                # denormal steps below the exact threshold -- but never one whose own probability rounds to zero.
                units = math.exp(min(cutoff + 103.28, 50.0))       # exact threshold in units of the smallest denormal
                if units > 3.0:
                    wide = -math.log(1.0 - 1.5 / units) + band
                    may_beta = margin >= -wide
                    sure_beta = margin > wide
                else:
                    may_beta = may_beta or s > -104.0
                    sure_beta = False
        else:
            sure_beta = may_beta = True
        if sure_prune and sure_beta:
            surely.add(t)
        if may_prune and may_beta:
            maybe.add(t)
    return surely, maybe


# ------------------------------------------------------------------ exhaustive / viterbi chart

def _dep(dep, child_head, head):
    return float(dep[child_head, head + 1])


def viterbi(n, tag, dep, categories, admitted, memo, roots, penalty, max_rounds=64):
    """max score over all derivations; returns (best_score or None, stats)"""
    tag = numpy.asarray(tag, dtype=numpy.float64)
    dep = numpy.asarray(dep, dtype=numpy.float64)
    roots = set(roots)
    chart = {}
    proposals = set()     # distinct scores of complete root-licensed derivation classes

    def close_unary(cell):
        rounds = 0
        changed = list(cell.items())
        while changed:
            rounds += 1
            if rounds > max_rounds:
                raise RefOverflow('unary closure does not converge (cyclic unary rules?)')
            nxt = []
            for (cat, head), score in changed:
                for r in memo.unary(cat):
                    key = (r.cat, head)
                    s = score - penalty
                    if key not in cell or s > cell[key]:
                        cell[key] = s
                        nxt.append((key, s))
            changed = nxt

    for i in range(n):
        cell = {}
        for t in admitted[i]:
            key = (categories[t], i)
            s = float(tag[i, t])
            if key not in cell or s > cell[key]:
                cell[key] = s
        if n == 1 or True:
            # span length 1 != n unless n == 1; unary allowed in both cases
            close_unary(cell)
        chart[(i, i + 1)] = cell
    for length in range(2, n + 1):
        for i in range(0, n - length + 1):
            j = i + length
            cell = {}
            for k in range(i + 1, j):
                left = chart[(i, k)]
                right = chart[(k, j)]
                if not left or not right:
                    continue
                for (lc, lh), ls in left.items():
                    for (rc, rh), rs in right.items():
                        for r in memo.binary(lc, rc):
                            if r.head_is_left:
                                head, child = lh, rh
                            else:
                                head, child = rh, lh
                            s = ls + rs + _dep(dep, child, head)
                            key = (r.cat, head)
                            if length == n and r.cat in roots:
                                proposals.add(round(s + float(dep[head, 0]), 9))
                            if key not in cell or s > cell[key]:
                                cell[key] = s
            if length != n:
                close_unary(cell)
            chart[(i, j)] = cell
    best = None
    for (cat, head), s in chart[(0, n)].items():
        if cat in roots:
            total = s + float(dep[head, 0])
            if n == 1:
                proposals.add(round(total, 9))
            if best is None or total > best:
                best = total
    viterbi.last_alternatives = len(proposals)
    return best


def enumerate_derivations(n, tag, dep, categories, admitted, memo, roots, penalty,
                          cap=60000, max_chain=12):
    """every derivation of the sentence with its float64 score.
    returns list of (score, deriv) for root-attached full parses.
    deriv = ('L', i, t) | ('U', str(cat), rule_idx, child) | ('B', str(cat), rule_idx, left, right)"""
    tag = numpy.asarray(tag, dtype=numpy.float64)
    dep = numpy.asarray(dep, dtype=numpy.float64)
    roots = set(roots)
    chart = {}
    total = [0]

    def bump(k=1):
        total[0] += k
        if total[0] > cap:
            raise RefOverflow(f'more than {cap} chart items')

    def close_unary(items):
        frontier = list(items)
        depth = 0
        while frontier:
            depth += 1
            if depth > max_chain:
                raise RefOverflow('unary chain too long (cyclic unary rules?)')
            nxt = []
            for cat, head, score, d in frontier:
                for idx, r in enumerate(memo.unary(cat)):
                    item = (r.cat, head, score - penalty, ('U', str(r.cat), idx, d))
                    nxt.append(item)
                    bump()
            items.extend(nxt)
            frontier = nxt

    for i in range(n):
        items = []
        for t in sorted(admitted[i]):
            items.append((categories[t], i, float(tag[i, t]), ('L', i, t)))
            bump()
        close_unary(items)
        chart[(i, i + 1)] = items
    for length in range(2, n + 1):
        for i in range(0, n - length + 1):
            j = i + length
            items = []
            for k in range(i + 1, j):
                for lc, lh, ls, ld in chart[(i, k)]:
                    for rc, rh, rs, rd in chart[(k, j)]:
                        for idx, r in enumerate(memo.binary(lc, rc)):
                            if r.head_is_left:
                                head, child = lh, rh
                            else:
                                head, child = rh, lh
                            items.append((r.cat, head, ls + rs + _dep(dep, child, head),
                                          ('B', str(r.cat), idx, ld, rd)))
                            bump()
            if length != n:
                close_unary(items)
            chart[(i, j)] = items
    out = []
    for cat, head, s, d in chart[(0, n)]:
        if cat in roots:
            out.append((s + float(dep[head, 0]), d))
    out.sort(key=lambda x: -x[0])
    return out


def count_derivations(n, categories, admitted, memo, roots, max_chain=12):
    """number of derivations (tree shape x tags x rule indices) with an allowed root: a polynomial dynamic
    program over (span, category), usable where enumeration is hopeless"""
    roots = set(roots)
    chart = {}

    def close_unary(cell):
        frontier = dict(cell)
        depth = 0
        while frontier:
            depth += 1
            if depth > max_chain:
                raise RefOverflow('unary chain too long (cyclic unary rules?)')
            nxt = {}
            for cat, c in frontier.items():
                for r in memo.unary(cat):
                    nxt[r.cat] = nxt.get(r.cat, 0) + c
            for cat, c in nxt.items():
                cell[cat] = cell.get(cat, 0) + c
            frontier = nxt

    for i in range(n):
        cell = {}
        for t in admitted[i]:
            cell[categories[t]] = cell.get(categories[t], 0) + 1
        close_unary(cell)
        chart[(i, i + 1)] = cell
    for length in range(2, n + 1):
        for i in range(0, n - length + 1):
            j = i + length
            cell = {}
            for k in range(i + 1, j):
                for lc, lcount in chart[(i, k)].items():
                    for rc, rcount in chart[(k, j)].items():
                        for r in memo.binary(lc, rc):
                            cell[r.cat] = cell.get(r.cat, 0) + lcount * rcount
            if length != n:
                close_unary(cell)
            chart[(i, j)] = cell
    return sum(c for cat, c in chart[(0, n)].items() if cat in roots)


# ------------------------------------------------------------------ per-tree oracles

def _canon_tree(tree):
    """id()-free canonical form of a Tree (used for equality of responses): the flat pre-order list of its
    nodes with their arity -- flat, so that comparing, hashing and serialising it never recurses"""
    out, stack = [], [tree]
    while stack:
        node = stack.pop()
        if node.is_leaf:
            tok = node.children[0]
            out.append(('L', str(node.cat), node.op_string, node.op_symbol, bool(node.head_is_left),
                        tuple((k, tok[k]) for k in tok.keys())))
        else:
            out.append(('T', str(node.cat), node.op_string, node.op_symbol, bool(node.head_is_left),
                        len(node.children)))
            stack.extend(reversed(node.children))
    return tuple(out)


def canon_tree(tree):
    return _canon_tree(tree)


@deep
def canon_response(resp):
    """response = list of ScoredTree"""
    return tuple([(_canon_tree(st.tree), float(st.score)) for st in resp])


def is_placeholder(resp):
    if len(resp) != 1:
        return False
    st = resp[0]
    t = st.tree
    return (t.is_leaf and t.children[0].get('word') == 'FAILED' and list(t.children[0].keys()) == ['word']
            and str(t.cat) == 'NP' and st.score == -math.inf)


def score_tolerance(terms_abs_sum):
    return 1e-5 * max(1.0, terms_abs_sum)


@deep
def tree_score(tree, tag, dep, cat_index, penalty):
    """(score in float64, sum of |terms|) recomputed from the tree's own flags;
    raises KeyError if a leaf category is not in the tag inventory"""
    tag = numpy.asarray(tag, dtype=numpy.float64)
    dep = numpy.asarray(dep, dtype=numpy.float64)
    pos = [0]
    acc = [0.0, 0.0]

    def add(v):
        acc[0] += v
        acc[1] += abs(v)

    def rec(node):
        if node.is_leaf:
            i = pos[0]
            pos[0] += 1
            add(float(tag[i, cat_index[node.cat]]))
            return i
        if len(node.children) == 1:
            h = rec(node.children[0])
            add(-penalty)
            return h
        lh = rec(node.children[0])
        rh = rec(node.children[1])
        if node.head_is_left:
            head, child = lh, rh
        else:
            head, child = rh, lh
        add(float(dep[child, head + 1]))
        return head
    head = rec(tree)
    add(float(dep[head, 0]))
    return acc[0], acc[1]


@deep
def check_licensed(tree, tokens, categories, memo, roots, maybe_admitted=None):
    """C02 oracle for one tree.  returns list of complaint strings (empty = ok)."""
    complaints = []
    leaves = tree.leaves
    n = len(tokens)
    if len(leaves) != n:
        complaints.append(f'tree has {len(leaves)} leaves for {n} tokens')
        return complaints
    cat_index = {c: i for i, c in enumerate(categories)}
    for i, leaf in enumerate(leaves):
        if leaf.children[0] is not tokens[i] and leaf.children[0] != tokens[i]:
            complaints.append(f'leaf {i} carries token {dict(leaf.children[0])!r}, input has {dict(tokens[i])!r}')
        if leaf.cat not in cat_index:
            complaints.append(f'leaf {i} category {leaf.cat} is not in the tag inventory')
        elif maybe_admitted is not None and cat_index[leaf.cat] not in maybe_admitted[i]:
            complaints.append(f'leaf {i} uses tag {leaf.cat} which the beam excludes')

    def rec(node, is_root):
        if node.is_leaf:
            return
        kids = node.children
        if len(kids) == 1:
            if is_root and n > 1:
                complaints.append('unary step at the root of a multi-word sentence')
            results = memo.unary(kids[0].cat)
            if node.cat not in [r.cat for r in results]:
                complaints.append(f'unary node {node.cat} is not a unary result for {kids[0].cat}')
            rec(kids[0], False)
        elif len(kids) == 2:
            results = memo.binary(kids[0].cat, kids[1].cat)
            if node.cat not in [r.cat for r in results]:
                complaints.append(
                    f'binary node {node.cat} is not a grammar result for ({kids[0].cat}, {kids[1].cat})')
            rec(kids[0], False)
            rec(kids[1], False)
        else:
            complaints.append(f'node with {len(kids)} children')
    rec(tree, True)
    if tree.cat not in set(roots):
        complaints.append(f'root category {tree.cat} is not an allowed root')
    return complaints


@deep
def check_labels(tree, memo):
    """C12 (parser half) oracle: every node's (label, symbol, head) is that of a
    grammar result for its children with the node's category.
    returns (complaints, nodes_checked, nodes_with_multiple_results)"""
    complaints = []
    counts = [0, 0]

    def rec(node):
        if node.is_leaf:
            return
        kids = node.children
        if len(kids) == 1:
            results = memo.unary(kids[0].cat)
            ok = [(r.op_string, r.op_symbol) for r in results if r.cat == node.cat]
            counts[0] += 1
            if len(results) > 1:
                counts[1] += 1
            if (node.op_string, node.op_symbol) not in ok:
                complaints.append(
                    f'unary node {kids[0].cat} -> {node.cat} labelled ({node.op_string},{node.op_symbol}), '
                    f'grammar gives {ok}')
            rec(kids[0])
        elif len(kids) == 2:
            results = memo.binary(kids[0].cat, kids[1].cat)
            ok = [(r.op_string, r.op_symbol, bool(r.head_is_left)) for r in results if r.cat == node.cat]
            counts[0] += 1
            if len(results) > 1:
                counts[1] += 1
            got = (node.op_string, node.op_symbol, bool(node.head_is_left))
            if got not in ok:
                complaints.append(
                    f'binary node ({kids[0].cat}, {kids[1].cat}) -> {node.cat} carries {got}, grammar gives {ok}')
            rec(kids[0])
            rec(kids[1])
    rec(tree)
    return complaints, counts[0], counts[1]


@deep
def tree_shape_stats(tree):
    st = {'binary': 0, 'unary': 0, 'right_headed': 0, 'max_unary_chain': 0}

    def rec(node, chain):
        if node.is_leaf:
            return
        if len(node.children) == 1:
            st['unary'] += 1
            st['max_unary_chain'] = max(st['max_unary_chain'], chain + 1)
            rec(node.children[0], chain + 1)
        else:
            st['binary'] += 1
            if not node.head_is_left:
                st['right_headed'] += 1
            for c in node.children:
                rec(c, 0)
    rec(tree, 0)
    return st
