"""A replica interpreter: started with its own PYTHONHASHSEED, evaluates the
recorded list of rule applications it is sent (JSON lines on stdin) with the
repository's real grammar functions and answers with canonical strings."""
import json
import os
import sys

HERE = os.path.dirname(os.path.abspath(__file__))
sys.path.insert(0, os.path.dirname(HERE))


def main():
    from depsim import env
    env.bootstrap(load_parser=False)
    from depccg.cat import Category
    from depccg.grammar import en, ja
    from depsim import grammars
    mods = {'en': en, 'ja': ja}
    cat_cache = {}
    seen_cache = {}
    table_cache = {}

    def cat(s):
        # a fresh value every time: a leaked mutation must not hide in a cache
        return Category.parse(s)

    def seen_of(spec):
        if spec is None:
            return None
        key = json.dumps(spec, sort_keys=True)
        if key not in seen_cache:
            if 'variant' in spec:
                seen_cache[key] = grammars.seen_rule_set(spec['variant'])
            else:
                seen_cache[key] = {
                    (Category.parse(x).clear_features('X', 'nb'), Category.parse(y).clear_features('X', 'nb'))
                    for x, y in spec['pairs']}
        return seen_cache[key]

    def table_of(spec):
        # built the way depccg.allennlp.utils.read_params builds it (a defaultdict(list)) unless the item asks
        # for a plain dict; a fresh object per evaluation, so that a mutation by one call is visible
        from collections import defaultdict
        if 'variant' in spec:
            pairs = grammars.shipped('unary_rules', spec['variant'])
        else:
            pairs = spec['pairs']
        t = {} if spec.get('plain_dict') else defaultdict(list)
        for k, v in pairs:
            ck = Category.parse(k)
            if ck not in t:
                t[ck] = []
            t[ck].append(Category.parse(v))
        return t

    def snapshot_table(t):
        return (type(t).__name__, len(t), tuple((str(k), tuple(str(c) for c in v)) for k, v in t.items()))

    def evaluate(item):
        after = item.get('interrupt_after')
        if after:
            # F10: this application is pre-empted after `after` lines of repository code (KeyboardInterrupt)
            from depsim import faults
            hit, value = faults.run_interrupted(lambda: evaluate_plain(item), after)
            return {'interrupted': True} if hit else value
        return evaluate_plain(item)

    def evaluate_plain(item):
        mod = mods[item['lang']]
        try:
            if item['kind'] == 'binary' and item.get('pickled'):
                # the categories and the seen-rule set were built in ANOTHER interpreter (another string-hash seed) and
                # arrive as a pickle, exactly as the arguments of depccg.parsing.run reach a pool worker
                import base64, pickle
                x, y, seen_obj = pickle.loads(base64.b64decode(item['pickled']))
                before = (str(x), str(y), hash(x), hash(y))
                res = mod.apply_binary_rules(x, y, seen_obj)
                after = (str(x), str(y), hash(x), hash(y))
                same_value = (x == Category.parse(before[0]) and y == Category.parse(before[1]))
            elif item['kind'] == 'binary':
                x, y = cat(item['x']), cat(item['y'])
                before = (str(x), str(y), hash(x), hash(y))
                seen = seen_of(item.get('seen'))
                seen_size = None if seen is None else len(seen)
                if seen is None and item.get('plain'):
                    res = mod.apply_binary_rules(x, y)
                else:
                    res = mod.apply_binary_rules(x, y, seen)
                after = (str(x), str(y), hash(x), hash(y))
                same_value = (x == Category.parse(before[0]) and y == Category.parse(before[1])
                              and (seen is None or len(seen) == seen_size))
            else:
                x = cat(item['x'])
                table = table_of(item['table'])
                before = (str(x), hash(x), snapshot_table(table))
                res = mod.apply_unary_rules(x, table)
                after = (str(x), hash(x), snapshot_table(table))
                same_value = x == Category.parse(before[0])
            out = [[str(r.cat), r.op_string, r.op_symbol, bool(r.head_is_left)] for r in res]
            if not isinstance(res, list):
                return {'exc': f'TypeError: result is {type(res).__name__}, not list'}
            return {'res': out, 'mutated': (before != after) or not same_value}
        except Exception as e:  # noqa
            return {'exc': f'{type(e).__name__}: {str(e)[:200]}'}

    def endurance(e):
        """one long-lived process applying the rules to `n` DIFFERENT category pairs (a server, a long batch):
        returns the first exception, or samples of (pair, result) for comparison with fresh evaluations"""
        from depsim import gen
        variant = e['variant']
        mod = mods['ja' if variant == 'ja' else 'en']
        pairs, _, _ = gen.seen_index(variant)
        names = sorted({c for p in pairs for c in p} | {str(Category.parse(t)) for t in grammars.shipped('targets', variant)})
        cats = [Category.parse(c) for c in names]
        m = len(cats)
        total = m * m
        stride = 1000003
        while total % stride == 0:
            stride += 2
        pos = e['start'] % total
        samples = []
        for i in range(min(e['n'], total)):
            x, y = divmod(pos, m)
            try:
                res = mod.apply_binary_rules(cats[x], cats[y])
            except Exception as exc:  # noqa
                return {'exc': f'{type(exc).__name__}: {str(exc)[:200]}', 'at': i, 'x': names[x], 'y': names[y],
                        'categories': m}
            if i % e['sample_every'] == 0 or i >= e['n'] - 40:
                samples.append([names[x], names[y],
                                [[str(r.cat), r.op_string, r.op_symbol, bool(r.head_is_left)] for r in res]])
            pos = (pos + stride) % total
        return {'samples': samples, 'applied': min(e['n'], total), 'categories': m}

    sys.stdout.write(json.dumps({'ready': True, 'hashseed': os.environ.get('PYTHONHASHSEED'),
                                 'pair_order': list({'b0', 'b1'})}) + '\n')
    sys.stdout.flush()
    for line in sys.stdin:
        line = line.strip()
        if not line:
            continue
        msg = json.loads(line)
        if msg.get('cmd') == 'quit':
            break
        items = msg.get('items', [])
        # one request = one forked child of this pristine interpreter (it has imported the
        # grammar but never applied a rule): whatever state rule application leaks dies with
        # the child, so a run is a function of its own evaluation list only
        sys.stdout.flush()
        pid = os.fork()
        if pid == 0:
            code = 0
            try:
                if 'endurance' in msg:
                    sys.stdout.write(json.dumps({'endurance': endurance(msg['endurance'])}) + '\n')
                    sys.stdout.flush()
                    os._exit(0)
                answers = [evaluate(items[i]) for i in msg['order']]
                sys.stdout.write(json.dumps({'answers': answers}) + '\n')
                sys.stdout.flush()
            except BaseException:
                code = 1
            finally:
                os._exit(code)
        _, status = os.waitpid(pid, 0)
        if status != 0:
            sys.stdout.write(json.dumps({'died': status}) + '\n')
            sys.stdout.flush()


if __name__ == '__main__':
    main()
