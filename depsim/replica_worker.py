"""A worker interpreter for simulated pool tasks, started under its own
PYTHONHASHSEED (fault F6: the worker that evaluates a chunk is another
interpreter process than the parent).  Protocol: length-prefixed pickles on
stdin/stdout; every task runs in a forked child of this pristine process."""
import os
import pickle
import struct
import sys

HERE = os.path.dirname(os.path.abspath(__file__))
sys.path.insert(0, os.path.dirname(HERE))


def _read(stream):
    head = stream.read(8)
    if len(head) < 8:
        return None
    (n,) = struct.unpack('<Q', head)
    return stream.read(n)


def _write(stream, data):
    stream.write(struct.pack('<Q', len(data)))
    stream.write(data)
    stream.flush()


def main():
    from depsim import env
    env.bootstrap()
    from depsim import cemu, stubs
    inp, out = sys.stdin.buffer, sys.stdout.buffer
    _write(out, pickle.dumps({'ready': True, 'hashseed': os.environ.get('PYTHONHASHSEED')}))
    while True:
        payload = _read(inp)
        if payload is None:
            break
        r, w = os.pipe()
        pid = os.fork()
        if pid == 0:
            code = 0
            try:
                os.close(r)
                stubs.tqdm_hook[0] = lambda kind, a, b: cemu.trace.append((kind, a, b))
                req = pickle.loads(payload)
                cemu.start_trace(poplog=req.get('poplog', False))
                func, args, kwds = pickle.loads(req['task'])
                units = len(args[0]) if args and isinstance(args[0], list) else 1
                try:
                    value = func(*args, **kwds)
                    try:
                        res = (True, pickle.dumps(value), units)
                    except Exception as e:  # noqa
                        from multiprocessing.pool import MaybeEncodingError
                        raise MaybeEncodingError(e, value)
                except Exception as e:  # noqa
                    try:
                        res = (False, pickle.dumps(e), units)
                    except Exception:
                        res = (False, pickle.dumps(RuntimeError(repr(e))), units)
                trace = cemu.stop_trace()
                data = pickle.dumps(res + (trace, cemu.take_unraisable(), cemu.take_ub()))
                with os.fdopen(w, 'wb') as f:
                    f.write(data)
            except BaseException:
                code = 1
            finally:
                os._exit(code)
        os.close(w)
        with os.fdopen(r, 'rb') as f:
            data = f.read()
        _, status = os.waitpid(pid, 0)
        if status != 0 or not data:
            _write(out, pickle.dumps({'died': status}))
        else:
            _write(out, data)


if __name__ == '__main__':
    main()
