"""client side of replica_worker.py"""
import atexit
import os
import pickle
import struct
import subprocess
import sys

from depsim import env

SEED_POOL = (1, 2, 3)
_servers = {}


def _start(seed):
    env_ = dict(os.environ)
    env_['PYTHONHASHSEED'] = str(seed)
    env_.pop('DEPSIM_HARNESS_HASHSEED', None)
    srv = subprocess.Popen(
        [sys.executable, os.path.join(env.VERIF, 'depsim', 'replica_worker.py')],
        stdin=subprocess.PIPE, stdout=subprocess.PIPE, stderr=subprocess.DEVNULL, env=env_)
    hello = _read(srv.stdout)
    if hello is None:
        raise env.HarnessError('replica worker failed to start')
    srv.owner = os.getpid()
    _servers[seed] = srv
    return srv


def _read(stream):
    head = stream.read(8)
    if len(head) < 8:
        return None
    (n,) = struct.unpack('<Q', head)
    return stream.read(n)


def ensure_started(seeds=SEED_POOL):
    for s in seeds:
        if s not in _servers or _servers[s].poll() is not None:
            _start(s)


def call(seed, task_payload, poplog=False):
    srv = _servers.get(seed)
    if srv is None or srv.poll() is not None:
        srv = _start(seed)
    data = pickle.dumps({'task': task_payload, 'poplog': poplog})
    srv.stdin.write(struct.pack('<Q', len(data)))
    srv.stdin.write(data)
    srv.stdin.flush()
    reply = _read(srv.stdout)
    if reply is None:
        raise env.HarnessError('replica worker died')
    out = pickle.loads(reply)
    if isinstance(out, dict) and 'died' in out:
        from depsim.simpool import WorkerCrash
        raise WorkerCrash(f'replica task child died (status {out["died"]})')
    return out


def _shutdown():
    for srv in list(_servers.values()):
        if getattr(srv, 'owner', None) == os.getpid() and srv.poll() is None:
            try:
                srv.stdin.close()
                srv.wait(timeout=2)
            except Exception:
                srv.kill()


atexit.register(_shutdown)
