"""Seeded search driver shared by all checks: runs many simulated runs across
processes, aggregates reach measures, minimises and replays failures, applies
the known-findings file, writes evidence."""
import concurrent.futures
import faulthandler
import hashlib
import json
import multiprocessing
import os
import subprocess
import sys
import time
import traceback

from depsim import env

VERIF = env.VERIF
REPLAY_DIR = os.path.join(VERIF, 'replays')
EVIDENCE_DIR = os.path.join(VERIF, 'evidence')
KNOWN_FINDINGS = os.path.join(VERIF, 'known_findings.json')


class Violation(dict):
    """{'property','oracle','message','signature', 'op_index'?}"""


def new_stats():
    return {'counters': {}, 'sets': {}, 'samples': []}


def bump(stats, key, n=1):
    stats['counters'][key] = stats['counters'].get(key, 0) + n


def add_set(stats, key, value):
    stats['sets'].setdefault(key, set()).add(value)


def merge_stats(into, other):
    for k, v in other['counters'].items():
        if k in ('slowest_run_s', 'largest_rule_cache_entries', 'largest_sentence_words', 'largest_tag_inventory', 'largest_document_sentences',
                 'largest_document_distinct_categories', 'largest_k', 'largest_derivation_count'):
            into['counters'][k] = max(into['counters'].get(k, 0.0), v)
        else:
            into['counters'][k] = into['counters'].get(k, 0) + v
    for k, v in other['sets'].items():
        into['sets'].setdefault(k, set()).update(v)
    for s in other['samples']:
        if len(into['samples']) < 6:
            into['samples'].append(s)


def digest(obj):
    return hashlib.sha256(json.dumps(obj, sort_keys=True, default=str).encode()).hexdigest()[:16]


# ------------------------------------------------------------------ known findings

def load_known_findings():
    if not os.path.exists(KNOWN_FINDINGS):
        return []
    with open(KNOWN_FINDINGS) as f:
        return json.load(f).get('findings', [])


def match_known(violation, findings):
    for f in findings:
        if f.get('status') != 'known':
            continue
        if f['property'] != violation['property'] or f['oracle'] != violation['oracle']:
            continue
        sig = f.get('signature', {})
        vsig = violation.get('signature', {})
        if all(vsig.get(k) == v for k, v in sig.items()):
            return f
    return None


# ------------------------------------------------------------------ process isolation per run

class ChildCrashed(Exception):
    def __init__(self, status):
        Exception.__init__(self, f'child process died (wait status {status})')
        self.status = status
        self.signal = status & 0x7f
        self.exit_code = (status >> 8) & 0xff

    def __reduce__(self):
        return (ChildCrashed, (self.status,))


def _crash_result(prop, signal, where):
    st = new_stats()
    v = Violation(property=prop.id, oracle='process_crash',
                  message=f'the process executing the run died with signal {signal} ({where})',
                  signature={'signal': signal})
    return {'violations': [v], 'stats': st, 'log_digest': f'crash-{signal}'}


def isolated(fn, *args, wall_cap=None):
    """run fn(*args) in a freshly forked child of this (pristine: it never parses
    itself) process.  One run = one process image, so state that code under test
    keeps in statics / module globals cannot leak from one run into the next and a
    replay in a fresh interpreter sees exactly what the run saw."""
    import pickle
    r, w = os.pipe()
    pid = os.fork()
    if pid == 0:
        code = 0
        try:
            os.close(r)
            if wall_cap:
                faulthandler.dump_traceback_later(wall_cap, exit=True)
            try:
                out = ('ok', fn(*args))
            except BaseException as e:  # noqa
                out = ('exc', type(e).__name__, str(e), traceback.format_exc())
            data = pickle.dumps(out)
            with os.fdopen(w, 'wb') as f:
                f.write(data)
        except BaseException:
            code = 3
        finally:
            os._exit(code)
    os.close(w)
    with os.fdopen(r, 'rb') as f:
        data = f.read()
    _, status = os.waitpid(pid, 0)
    if not data:
        raise ChildCrashed(status)
    out = pickle.loads(data)
    if out[0] == 'ok':
        return out[1]
    if out[1] == 'HarnessError':
        raise env.HarnessError(out[2])
    raise RuntimeError(f'{out[1]}: {out[2]}\n{out[3]}')


def run_one(prop, seed, index, tier, options):
    """generate + execute one run, each from a pristine process image.
    returns (spec, result)"""
    cap = options.get('run_wall_cap', 300)
    if getattr(prop, 'isolate', True):
        try:
            spec = isolated(prop.generate, seed, index, tier, options, wall_cap=cap)
        except ChildCrashed as e:
            if not e.signal:
                raise env.HarnessError(f'generation of run {index} exceeded its wall cap of {cap}s or failed '
                                       f'(exit code {e.exit_code})')
            # the code under test died during the dry runs that generation performs (budget probing):
            # the replay regenerates the run, which is a pure function of (seed, index, tier)
            spec = {'prop': prop.id, 'regenerate': [seed, index, tier, options]}
            return spec, _crash_result(prop, e.signal, 'during the dry runs of run generation')
        from depsim import gen
        if getattr(prop, 'build_variants', None) and 'build' not in spec:
            # which build of parsing.h the run uses: the flags of the shipped extension, or assertions alive
            spec['build'] = gen.stream(seed, prop.id + ':build', index).choice(prop.build_variants)
        return spec, execute_spec(prop, spec, cap)
    faulthandler.dump_traceback_later(cap, exit=True)
    try:
        spec = prop.generate(seed, index, tier, options)
        return spec, prop.execute(spec)
    finally:
        faulthandler.cancel_dump_traceback_later()


def _regen_and_execute(prop, spec):
    seed, index, tier, options = spec['regenerate']
    return prop.execute(prop.generate(seed, index, tier, options))


def _execute_built(prop, spec, *args):
    from depsim import cemu
    cemu.select_variant(spec.get('build', 'release'))
    return prop.execute(spec, *args)


def execute_spec(prop, spec, cap=300, executor_mode=None):
    if spec.get('regenerate'):
        try:
            return isolated(_regen_and_execute, prop, spec, wall_cap=cap)
        except ChildCrashed as e:
            if e.signal:
                return _crash_result(prop, e.signal, 'during the dry runs of run generation')
            raise env.HarnessError(f'run exceeded its wall cap of {cap}s or the child failed (exit code {e.exit_code})')
    if not getattr(prop, 'isolate', True):
        return prop.execute(spec) if executor_mode is None else prop.execute(spec, executor_mode)
    try:
        if executor_mode is None:
            return isolated(_execute_built, prop, spec, wall_cap=cap)
        return isolated(_execute_built, prop, spec, executor_mode, wall_cap=cap)
    except ChildCrashed as e:
        if e.signal:
            # the code under test killed its process: that is an observation, not a harness failure
            return _crash_result(prop, e.signal, 'while executing the recorded operations')
        raise env.HarnessError(f'run exceeded its wall cap of {cap}s or the child failed (exit code {e.exit_code})')


# ------------------------------------------------------------------ worker side

def _worker_batch(prop_name, seed, indices, tier, options):
    """executed in a forked child: run the given run indices"""
    faulthandler.enable()
    from depsim import props
    prop = props.get(prop_name)
    stats = new_stats()
    violations = []
    logs = {}
    findings = load_known_findings()
    known_examples = set()
    if any(getattr(prop, 'replica_rate', {}).values()):
        # replica worker interpreters live in this long-lived worker; the per-run children inherit their pipes
        from depsim import replicas
        replicas.ensure_started()
    t0 = time.time()
    for index in indices:
        t_run = time.time()
        spec, result = run_one(prop, seed, index, tier, options)
        merge_stats(stats, result['stats'])
        bump(stats, 'runs')
        if spec.get('build'):
            bump(stats, 'runs_on_build:' + spec['build'])
        dt = time.time() - t_run
        stats['counters']['slowest_run_s'] = max(stats['counters'].get('slowest_run_s', 0.0), dt)
        if dt > 10:
            print(f'slow run {prop_name} seed={seed} index={index}: {dt:.1f}s', file=sys.stderr)
        logs[index] = result.get('log_digest')
        for v in result['violations']:
            v.setdefault('property', prop_name)
            known = match_known(v, findings)
            if known is not None:
                bump(stats, 'known:' + known['id'])
                if known['id'] in known_examples:
                    continue
                known_examples.add(known['id'])
            if len(violations) < 20:
                violations.append({'index': index, 'violation': v, 'spec': spec})
        if options.get('stop_after') and time.time() - t0 > options['stop_after']:
            break
    # sets -> lists for pickling compactness
    return {'stats': stats, 'violations': violations, 'logs': logs}


def run_search(prop_name, seed, tier, n_runs, jobs, options, wall_budget=None):
    """returns (stats, violations, logs, harness_errors)"""
    ctx = multiprocessing.get_context('fork')
    stats = new_stats()
    violations = []
    logs = {}
    errors = []
    findings_main = load_known_findings()
    chunk = max(1, min(options.get('chunk', 8), (n_runs + jobs - 1) // jobs))
    batches = [list(range(i, min(i + chunk, n_runs))) for i in range(0, n_runs, chunk)]
    t0 = time.time()
    per_future_timeout = options.get('batch_wall_cap', 1500)
    with concurrent.futures.ProcessPoolExecutor(max_workers=jobs, mp_context=ctx) as ex:
        pending = {}
        it = iter(batches)

        stop = [False]

        def submit_next():
            if stop[0]:
                return False
            if wall_budget is not None and time.time() - t0 > wall_budget:
                return False
            try:
                b = next(it)
            except StopIteration:
                return False
            fut = ex.submit(_worker_batch, prop_name, seed, b, tier, options)
            pending[fut] = (b, time.time())
            return True
        for _ in range(jobs * 2):
            if not submit_next():
                break
        while pending:
            done, _ = concurrent.futures.wait(
                list(pending), timeout=5, return_when=concurrent.futures.FIRST_COMPLETED)
            now = time.time()
            for fut in done:
                b, started = pending.pop(fut)
                try:
                    res = fut.result()
                except concurrent.futures.CancelledError:
                    continue
                except concurrent.futures.process.BrokenProcessPool:
                    errors.append(f'worker process died while executing runs {b[0]}..{b[-1]}')
                    return stats, violations, logs, errors
                except Exception as e:  # noqa
                    errors.append(f'runs {b[0]}..{b[-1]}: {type(e).__name__}: {e}\n{traceback.format_exc()}')
                    continue
                merge_stats(stats, res['stats'])
                violations.extend(res['violations'])
                logs.update(res['logs'])
                submit_next()
            for fut, (b, started) in list(pending.items()):
                if now - started > per_future_timeout:
                    errors.append(f'runs {b[0]}..{b[-1]} exceeded the wall cap of {per_future_timeout}s')
                    pending.pop(fut)
                    fut.cancel()
            if len([x for x in violations if match_known(x['violation'], findings_main) is None]) >= options.get('max_violations', 40):
                stop[0] = True
                for fut in list(pending):
                    fut.cancel()
                # let running futures finish
    return stats, violations, logs, errors


# ------------------------------------------------------------------ replay / shrink

def write_replay(prop_name, seed, index, spec, violation, tag=''):
    os.makedirs(REPLAY_DIR, exist_ok=True)
    path = os.path.join(REPLAY_DIR, f'{prop_name}-{seed}-{index}{tag}.json')
    with open(path, 'w') as f:
        json.dump({'property': prop_name, 'seed': seed, 'index': index,
                   'violation': violation, 'spec': spec}, f, indent=1, sort_keys=True, default=str)
    return path


def same_failure(v, target):
    return v['oracle'] == target['oracle'] and v.get('signature') == target.get('signature')


def execute_isolated(prop_name, spec, timeout=120):
    """execute a spec in a forked child (protects the driver from crashes)"""
    ctx = multiprocessing.get_context('fork')
    with concurrent.futures.ProcessPoolExecutor(max_workers=1, mp_context=ctx) as ex:
        fut = ex.submit(_exec_spec, prop_name, spec)
        try:
            return fut.result(timeout=timeout)
        except Exception as e:  # noqa
            return {'violations': [], 'error': f'{type(e).__name__}: {e}'}


def _exec_spec(prop_name, spec):
    from depsim import props
    prop = props.get(prop_name)
    res = prop.execute(spec)
    return {'violations': res['violations'], 'log_digest': res.get('log_digest')}


def shrink(prop_name, spec, target, budget_s=60):
    """greedy structure-aware minimisation while the same oracle+signature fails"""
    from depsim import props
    prop = props.get(prop_name)
    t0 = time.time()
    best = spec
    if spec.get('regenerate'):
        return spec, 0      # the run died while being generated: the replay regenerates it, nothing to minimise
    improved = True
    steps = 0
    while improved and time.time() - t0 < budget_s:
        improved = False
        for cand in prop.shrink_candidates(best):
            if time.time() - t0 > budget_s:
                break
            steps += 1
            try:
                res = execute_spec(prop, cand)
            except Exception:
                continue
            if any(same_failure(v, target) for v in res['violations']):
                best = cand
                improved = True
                break
    return best, steps


def replay_in_fresh_interpreter(prop_name, path, timeout=300):
    cmd = [sys.executable, os.path.join(VERIF, 'depsim', 'check.py'), prop_name, '--replay', path, '--quiet']
    env_ = dict(os.environ)
    env_.pop('PYTHONHASHSEED', None)
    proc = subprocess.run(cmd, capture_output=True, text=True, timeout=timeout, env=env_)
    return proc.returncode, proc.stdout + proc.stderr


# ------------------------------------------------------------------ evidence

def write_evidence(prop_name, tier, seed, level, stats, wall_s, n_violations, rule, extra=None,
                   assumptions=None):
    os.makedirs(EVIDENCE_DIR, exist_ok=True)
    c = stats['counters']
    sets = stats['sets']
    coverage = {
        'evaluations': int(c.get('evaluations', 0)),
        'distinct_nontrivial': len(sets.get('nontrivial', ())),
        'rule': rule,
        'samples': stats['samples'][:4] or ['(no sample recorded)'],
        'runs': int(c.get('runs', 0)),
        'runs_per_hour': round(c.get('runs', 0) / max(wall_s, 1e-9) * 3600),
        'simulated_seconds': round(c.get('sim_seconds', 0.0), 3),
        'fault_firings': {k[6:]: v for k, v in sorted(c.items()) if k.startswith('fault:')},
        'probes': {k[6:]: v for k, v in sorted(c.items()) if k.startswith('probe:')},
        'counters': {k: (round(v, 3) if isinstance(v, float) else v) for k, v in sorted(c.items())
                     if not k.startswith(('fault:', 'probe:'))},
        'distinct': {k: len(v) for k, v in sorted(sets.items())},
    }
    if extra:
        coverage.update(extra)
    doc = {
        'property_id': prop_name, 'tier': tier, 'seed': int(seed), 'level': level,
        'coverage': coverage, 'wall_s': round(wall_s, 2), 'violations': int(n_violations),
        'assumptions': assumptions or [],
    }
    path = os.path.join(EVIDENCE_DIR, f'{prop_name}.json')
    tmp = path + '.tmp'
    with open(tmp, 'w') as f:
        json.dump(doc, f, indent=1, sort_keys=True, default=str)
    os.replace(tmp, path)
    return path
