"""A simulated parse session: one world (grammar + sentence pool + shared
argument objects) against which `call` operations are executed through the
real `depccg.parsing.run`, with the worker pool, clock, faults and schedule
owned by the simulator."""
import math
import pickle
import re
import sys

import numpy

from depsim import cemu, gen, grammars, refparser, simpool, stubs


class World(object):
    def __init__(self, wspec):
        from depccg.types import Token
        self.spec = wspec
        self.g = grammars.build_from_spec(wspec['grammar'])
        self.categories = self.g['categories']          # shared list object, reused by every call
        self.roots = self.g['roots']
        self.binary = self.g['binary']
        self.unary = self.g['unary']
        self.memo = refparser.GrammarMemo(self.binary, self.unary)
        self.cat_index = {c: i for i, c in enumerate(self.categories)}
        self.tokens = []
        self.tag0 = []      # pristine originals held by the harness
        self.dep0 = []
        self.tag = []       # the arrays handed to depccg (shared across calls)
        self.dep = []
        for s in wspec['sentences']:
            style = s.get('token_style') or ('rich' if s.get('rich') else 'plain')
            if style == 'rich' and self.g['lang'] == 'ja':
                toks = [Token(word=w, surf=w, pos='名詞', pos1='一般', pos2='*', pos3='*',
                              inflectionForm='*', inflectionType='*', reading='ヨミ', base=w + 'b')
                        for w in s['words']]
            elif style == 'rich':
                toks = [Token(word=w, lemma=w.lower() + 'L', pos='NN', entity='O', chunk='I-NP')
                        for w in s['words']]
            elif style == 'bare':
                toks = [Token(word=w) for w in s['words']]
            else:
                toks = [Token.of_word(w) for w in s['words']]
            self.tokens.append(toks)
            t = gen.hex_to_arr(s['tag'])
            d = gen.hex_to_arr(s['dep'])
            self.tag0.append(t)
            self.dep0.append(d)
            self.tag.append(t.copy())
            self.dep.append(d.copy())
        self._alone = {}
        self.alone_calls = 0

    def n(self, sid):
        return len(self.tokens[sid])


CFG_KEYS = ('unary_penalty', 'beta', 'use_beta', 'pruning_size', 'nbest', 'max_step', 'max_length')
CFG_DEFAULTS = {'unary_penalty': 0.1, 'beta': 0.00001, 'use_beta': True, 'pruning_size': 50,
                'nbest': 1, 'max_step': 10000000, 'max_length': 250}


def cfg_of(op):
    return {k: op.get(k, CFG_DEFAULTS[k]) for k in CFG_KEYS}


def cfg_key(cfg):
    return tuple((k, cfg[k]) for k in CFG_KEYS)


class CallRecord(object):
    """everything observed about one `call` operation"""

    def __init__(self):
        self.responses = None        # list (per sentence) of list of ScoredTree
        self.exception = None        # (type name, message)
        self.exc_obj = None
        self.trace = []
        self.pool = None             # pool state dict
        self.sim = None
        self.per_sentence = []       # parse trace record (or None) per batch position
        self.contexts = []           # context signature per batch position
        self.schedule_sig = None
        self.callback_calls = 0
        self.fault_fired = {}


def _install_seams(sim, state, schedule, executor):
    import depccg.parsing as P

    def pool_factory(processes=None, *a, **k):
        return simpool.SimPool(sim, state, schedule, executor, processes)
    saved = (P.Pool, P.time)
    P.Pool = pool_factory
    P.time = simpool.SimClock(sim, state)
    return saved


def _restore_seams(saved):
    import depccg.parsing as P
    P.Pool, P.time = saved


def _trace_hook(kind, a, b):
    cemu.trace.append((kind, a, b))


def exec_call(world, op, executor_mode='inprocess', poplog=False, binary=None, unary=None,
              doc_override=None, scores_override=None, categories_override=None):
    """run one call through the real depccg.parsing.run under the simulator"""
    import depccg.parsing as P
    from depccg.types import ScoringResult
    rec = CallRecord()
    batch = op['batch']
    cfg = cfg_of(op)
    schedule = op.get('schedule') or {}
    sim = simpool.Simulator()
    state = simpool.new_pool_state()
    if executor_mode == 'fork':
        executor = simpool.fork_executor()
    elif executor_mode == 'replica':
        executor = simpool.replica_executor(schedule, poplog)
    else:
        executor = simpool.inprocess_executor()
    saved = _install_seams(sim, state, schedule, executor)
    binary = binary if binary is not None else world.binary
    unary = unary if unary is not None else world.unary
    if doc_override is not None:
        doc = doc_override
    elif op.get('single'):
        doc = world.tokens[batch[0]]
    else:
        doc = [world.tokens[s] for s in batch]
    if scores_override is not None:
        scores = scores_override
    elif op.get('single'):
        scores = ScoringResult(world.tag[batch[0]], world.dep[batch[0]])
    else:
        scores = [ScoringResult(world.tag[s], world.dep[s]) for s in batch]
    categories = categories_override if categories_override is not None else world.categories
    stubs.tqdm_hook[0] = _trace_hook
    cemu.start_trace(poplog=poplog)
    cemu.take_unraisable()
    cemu.take_ub()
    try:
        try:
            rec.responses = P.run(
                doc, scores, categories, world.roots, binary, unary,
                processes=op.get('processes', 2), max_chunk_size=op.get('max_chunk_size', 20),
                **cfg)
        except (simpool.SimDeadlock, simpool.SimLivelock) as e:
            rec.exception = (type(e).__name__, re.sub(r' at 0x[0-9a-f]+', ' at 0x..', str(e)))
            rec.exc_obj = e
        except Exception as e:  # noqa
            rec.exception = (type(e).__name__, re.sub(r' at 0x[0-9a-f]+', ' at 0x..', str(e)))
            rec.exc_obj = e
    finally:
        rec.trace = cemu.stop_trace()
        stubs.tqdm_hook[0] = None
        _restore_seams(saved)
    rec.unraisable = cemu.take_unraisable()
    rec.ub = cemu.take_ub()
    rec.pool = state
    rec.sim = sim
    _attribute_trace(rec, op, executor_mode)
    return rec


def _attribute_trace(rec, op, executor_mode):
    """map trace records to batch positions and derive context signatures"""
    batch = op['batch']
    nb = len(batch)
    pooled = bool(rec.pool['pools'])
    rec.per_sentence = [None] * nb
    rec.contexts = [None] * nb
    # chunk layout as the *specification* says: contiguous chunks in order
    tasks = []
    cur = None
    for ev in rec.trace:
        if ev[0] == 'task':
            cur = {'process_id': ev[1], 'n': ev[2], 'items': []}
            tasks.append(cur)
        elif ev[0] == 'item' and cur is not None:
            cur['items'].append({'index': ev[1], 'parse': None})
        elif ev[0] == 'parse' and cur is not None and cur['items']:
            cur['items'][-1]['parse'] = ev[1]
    # tasks are executed in dispatch order, which may differ from chunk index
    # order; process_id (= chunk index) identifies the chunk.
    tasks_by_pid = {}
    for t in tasks:
        tasks_by_pid.setdefault(t['process_id'], t)
    sizes = [tasks_by_pid[k]['n'] for k in sorted(tasks_by_pid)]
    rec.chunk_sizes = sizes
    if sum(s for s in sizes if s and s > 0) != nb:
        # cannot attribute (e.g. call raised before running); leave contexts empty
        pass
    else:
        pos = 0
        for pid in sorted(tasks_by_pid):
            t = tasks_by_pid[pid]
            prev_failed = False
            for it in t['items']:
                p = it['parse']
                if pos < nb:
                    rec.per_sentence[pos] = p
                    inherited = p['cache_before'] if p else 0
                    rec.contexts[pos] = (
                        'pooled-' + executor_mode if pooled else 'inprocess',
                        'first' if it['index'] == 0 else ('last' if it['index'] == t['n'] - 1 else 'mid'),
                        'warm' if inherited > 0 else 'cold',
                        'after-failure' if prev_failed else 'after-ok',
                        'cut' if (p and p['pops'] >= p['max_step']) else ('skipped' if p is None else 'ran'),
                    )
                    prev_failed = (p is None) or p['status'] != 0
                pos += 1
    if pooled:
        st = rec.pool
        rec.schedule_sig = (
            tuple(st['pool_sizes']), st['submitted'], tuple(st['completed_order']),
            tuple(sorted((k, v) for p in st['pools'] for k, v in p._assignment.items())),
            st['polls'],
        )
    else:
        rec.schedule_sig = ('inprocess',)


class AloneServer(object):
    """the per-sentence reference in a pristine process image: forked right after the world was built, before
    the first call of the session, it answers every request from a fresh fork of itself.  Whatever the calls of
    the session leave behind in the process (module-level memos of the grammar functions, C++ statics, interned
    tables) cannot reach a reference response."""

    def __init__(self, world):
        import os
        self._req_r, self._req_w = os.pipe()
        self._res_r, self._res_w = os.pipe()
        self._pid = os.fork()
        if self._pid == 0:
            try:
                os.close(self._req_w)
                os.close(self._res_r)
                inp = os.fdopen(self._req_r, 'rb')
                out = os.fdopen(self._res_w, 'wb')
                while True:
                    head = inp.read(4)
                    if len(head) < 4:
                        break
                    sid, cfg = pickle.loads(inp.read(int.from_bytes(head, 'little')))
                    r, w = os.pipe()
                    pid = os.fork()
                    if pid == 0:
                        try:
                            os.close(r)
                            world._alone = {}
                            world.reference = None
                            value = alone(world, sid, cfg)
                            if value[0] == 'ok':
                                # deep derivations cannot cross a process boundary as pickled Tree objects (the very
                                # limitation recorded as a finding): ship the flat canonical form and two facts
                                value = (value[0], value[1], {'placeholder': alone_is_placeholder(value),
                                                              'depth': alone_depth(value)}, value[3])
                            sys.setrecursionlimit(200000)
                            try:
                                data = pickle.dumps(value)
                            except Exception as e:  # noqa
                                import traceback
                                data = pickle.dumps(('harness', f'{type(e).__name__}: {e}', traceback.format_exc(), None))
                            with os.fdopen(w, 'wb') as f:
                                f.write(data)
                        finally:
                            os._exit(0)
                    os.close(w)
                    with os.fdopen(r, 'rb') as f:
                        data = f.read()
                    os.waitpid(pid, 0)
                    out.write(len(data).to_bytes(4, 'little') + data)
                    out.flush()
            finally:
                os._exit(0)
        os.close(self._req_r)
        os.close(self._res_w)
        self._out = os.fdopen(self._req_w, 'wb')
        self._inp = os.fdopen(self._res_r, 'rb')

    def alone(self, sid, cfg):
        data = pickle.dumps((sid, cfg))
        self._out.write(len(data).to_bytes(4, 'little') + data)
        self._out.flush()
        n = int.from_bytes(self._inp.read(4), 'little')
        if n == 0:
            return None          # the reference child died (e.g. the code under test crashes alone as well)
        limit = sys.getrecursionlimit()
        sys.setrecursionlimit(200000)
        try:
            return pickle.loads(self._inp.read(n))
        finally:
            sys.setrecursionlimit(limit)

    def close(self):
        import os
        try:
            self._out.close()
            self._inp.close()
            os.waitpid(self._pid, 0)
        except Exception:
            pass


def tree_depth(tree):
    best, stack = 0, [(tree, 1)]
    while stack:
        node, d = stack.pop()
        best = max(best, d)
        if not node.is_leaf:
            stack.extend((c, d + 1) for c in node.children)
    return best


def alone_is_placeholder(a):
    """a = an 'ok' answer of alone(); its third element is the raw response or, from the reference server, facts about it"""
    return a[2]['placeholder'] if isinstance(a[2], dict) else refparser.is_placeholder(a[2])


def alone_depth(a):
    if isinstance(a[2], dict):
        return a[2]['depth']
    return max([tree_depth(st.tree) for st in a[2]] or [0])


def alone(world, sid, cfg):
    """the per-sentence reference response: the sentence parsed by itself on a cold cache with the same
    configuration -- in a pristine process image when the world has a reference server, else in process"""
    key = (sid, cfg_key(cfg))
    if key not in world._alone and getattr(world, 'reference', None) is not None:
        value = world.reference.alone(sid, cfg)
        world.alone_calls += 1
        if value is not None and value[0] == 'harness':
            from depsim import env as _env
            raise _env.HarnessError(f'the reference process could not return its answer: {value[1]}\n{value[2]}')
        if value is None:
            value = ('exc', ('ProcessCrash', 'the reference process died while parsing the sentence alone'), None, None)
        world._alone[key] = value
    if key not in world._alone:
        op = dict(cfg)
        op.update({'op': 'call', 'batch': [sid], 'processes': 1, 'max_chunk_size': 10 ** 6})
        rec = exec_call(world, op)
        world.alone_calls += 1
        if rec.exception is not None:
            world._alone[key] = ('exc', rec.exception, None, None)
        elif not isinstance(rec.responses, list) or len(rec.responses) != 1:
            n = len(rec.responses) if hasattr(rec.responses, '__len__') else type(rec.responses).__name__
            world._alone[key] = ('bad', f'one sentence in, {n} result lists out', None, None)
        else:
            resp = rec.responses[0]
            world._alone[key] = ('ok', refparser.canon_response(resp), resp, rec.per_sentence[0])
    return world._alone[key]


def responses_equal(ca, cb):
    """canonical responses equal (scores compared exactly up to 1e-6 relative:
    the same float32 value crosses pickle unchanged)"""
    if len(ca) != len(cb):
        return False
    for (ta, sa), (tb, sb) in zip(ca, cb):
        if ta != tb:
            return False
        if sa == sb:
            continue
        if math.isinf(sa) or math.isinf(sb):
            return False
        if abs(sa - sb) > 1e-6 * max(1.0, abs(sa)):
            return False
    return True


def admitted_sets(world, sid, cfg):
    """(surely, maybe) per word from the independent beam model"""
    surely, maybe = [], []
    for i in range(world.n(sid)):
        s, m = refparser.beam_model(world.tag0[sid][i], cfg['pruning_size'], cfg['use_beta'], cfg['beta'])
        surely.append(s)
        maybe.append(m)
    return surely, maybe


def f32(x):
    return float(numpy.float32(x))
