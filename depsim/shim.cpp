// C-ABI shim around /repo/depccg/parsing.h so that the real A* search can be
// driven from Python with ctypes (Cython is not available in the sandbox).
// The shim only forwards pointers; it contains no parsing logic.
#include <climits>
#include <cstring>
#include <cstddef>
#include <string>
#include "depccg/parsing.h"

struct pop_record
{
    int fin;
    unsigned cat;
    float in_score;
    float out_score;
    unsigned start_of_span;
    unsigned span_length;
    unsigned head_id;
    unsigned rule_id;
};

static std::vector<pop_record> g_pop_log;
static int g_pop_log_enabled = 0;
static unsigned long g_pop_count = 0;

#ifdef DEPCCG_VERIF
static void record_pop(const parsing::cell_item *item)
{
    g_pop_count++;
    if (g_pop_log_enabled)
        g_pop_log.push_back({item->fin ? 1 : 0, item->cat, item->in_score, item->out_score,
                             item->start_of_span, item->span_length, item->head_id, item->rule_id});
}
#endif

extern "C"
{
    int ds_has_hook()
    {
#ifdef DEPCCG_VERIF
        return 1;
#else
        return 0;
#endif
    }

    void ds_pop_log_enable(int on)
    {
        g_pop_log_enabled = on;
#ifdef DEPCCG_VERIF
        depccg_verif_on_pop = record_pop;
#endif
    }
    void ds_pop_log_clear()
    {
        g_pop_log.clear();
        g_pop_count = 0;
    }
    unsigned long ds_pop_count() { return g_pop_count; }
    unsigned long ds_pop_log_size() { return g_pop_log.size(); }
    void ds_pop_log_copy(pop_record *out)
    {
        if (!g_pop_log.empty())
            std::memcpy(out, g_pop_log.data(), g_pop_log.size() * sizeof(pop_record));
    }
    unsigned long ds_sizeof_pop_record() { return sizeof(pop_record); }

    // field access by name (no assumption about the layout of cell_item / config)
    double ds_item_num(const parsing::cell_item *it, int field)
    {
        switch (field)
        {
        case 0: return it->fin ? 1.0 : 0.0;
        case 1: return (double)it->cat;
        case 4: return (double)it->in_score;
        case 5: return (double)it->out_score;
        case 6: return (double)it->start_of_span;
        case 7: return (double)it->span_length;
        case 8: return (double)it->head_id;
        case 9: return (double)it->rule_id;
        }
        return -1.0;
    }
    const void *ds_item_child(const parsing::cell_item *it, int which)
    {
        return which == 0 ? (const void *)it->left : (const void *)it->right;
    }
    void *ds_config_new() { return new config(); }
    void ds_config_free(void *c) { delete (config *)c; }
    void ds_config_set(void *p, int field, double v)
    {
        config *c = (config *)p;
        switch (field)
        {
        case 0: c->num_tags = (unsigned)v; break;
        case 1: c->unary_penalty = (float)v; break;
        case 2: c->beta = (float)v; break;
        case 3: c->use_beta = v != 0.0; break;
        case 4: c->pruning_size = (unsigned)v; break;
        case 5: c->nbest = (unsigned)v; break;
        case 6: c->max_step = (unsigned)v; break;
        }
    }
    double ds_config_get(const void *p, int field)
    {
        const config *c = (const config *)p;
        switch (field)
        {
        case 0: return (double)c->num_tags;
        case 1: return (double)c->unary_penalty;
        case 2: return (double)c->beta;
        case 3: return c->use_beta ? 1.0 : 0.0;
        case 4: return (double)c->pruning_size;
        case 5: return (double)c->nbest;
        case 6: return (double)c->max_step;
        }
        return -1.0;
    }
    float ds_item_score(parsing::cell_item *item) { return item->score(); }
    unsigned ds_uint_max() { return UINT_MAX; }

    // std::unordered_set<unsigned>
    void *ds_set_new() { return new std::unordered_set<unsigned>(); }
    void ds_set_free(void *s) { delete static_cast<std::unordered_set<unsigned> *>(s); }
    void ds_set_insert(void *s, unsigned v) { static_cast<std::unordered_set<unsigned> *>(s)->insert(v); }
    unsigned long ds_set_size(void *s) { return static_cast<std::unordered_set<unsigned> *>(s)->size(); }

    // cache_type
    void *ds_cache_new() { return new cache_type(); }
    void ds_cache_free(void *c) { delete static_cast<cache_type *>(c); }
    unsigned long ds_cache_size(void *c) { return static_cast<cache_type *>(c)->size(); }
    // number of results stored for (a, b), or -1 when the key is absent
    long ds_cache_count(void *c, unsigned a, unsigned b)
    {
        cache_type *cache = static_cast<cache_type *>(c);
        auto it = cache->find(std::pair<unsigned, unsigned>(a, b));
        if (it == cache->end())
            return -1;
        return (long)it->second.size();
    }
    // C++ operator[] semantics: inserts an empty vector when the key is absent
    void ds_cache_touch(void *c, unsigned a, unsigned b)
    {
        cache_type *cache = static_cast<cache_type *>(c);
        (*cache)[std::pair<unsigned, unsigned>(a, b)];
    }
    int ds_cache_get(void *c, unsigned a, unsigned b, unsigned idx,
                     unsigned *cat_id, unsigned *rule_id, int *head_is_left,
                     const char **op_string, unsigned long *op_string_len,
                     const char **op_symbol, unsigned long *op_symbol_len)
    {
        cache_type *cache = static_cast<cache_type *>(c);
        auto it = cache->find(std::pair<unsigned, unsigned>(a, b));
        if (it == cache->end() || idx >= it->second.size())
            return -1;
        combinator_result &r = it->second[idx];
        *cat_id = r.cat_id;
        *rule_id = r.rule_id;
        *head_is_left = r.head_is_left ? 1 : 0;
        *op_string = r.op_string.data();
        *op_string_len = r.op_string.size();
        *op_symbol = r.op_symbol.data();
        *op_symbol_len = r.op_symbol.size();
        return 0;
    }
    // dump all keys (for state signatures): fills up to n pairs, returns count
    unsigned long ds_cache_keys(void *c, unsigned *out, unsigned long n)
    {
        cache_type *cache = static_cast<cache_type *>(c);
        unsigned long i = 0;
        for (auto &kv : *cache)
        {
            if (i >= n)
                break;
            out[2 * i] = kv.first.first;
            out[2 * i + 1] = kv.first.second;
            i++;
        }
        return i;
    }

    // std::vector<combinator_result>::push_back
    void ds_results_push(void *v, unsigned cat_id, unsigned rule_id, int head_is_left,
                         const char *op_string, unsigned long op_string_len,
                         const char *op_symbol, unsigned long op_symbol_len)
    {
        std::vector<combinator_result> *results = static_cast<std::vector<combinator_result> *>(v);
        combinator_result r;
        r.cat_id = cat_id;
        r.rule_id = rule_id;
        r.head_is_left = head_is_left != 0;
        r.op_string = std::string(op_string, op_string_len);
        r.op_symbol = std::string(op_symbol, op_symbol_len);
        results->push_back(r);
    }

    // returns parse_sentence's status, or -1 when a C++ exception escaped
    // (message copied to errbuf) -- the equivalent of Cython's `except +`.
    long ds_parse_sentence(float *tag_scores, float *dep_scores, unsigned length,
                           void *root_set, void *binary_callback, void *unary_callback,
                           finalizer_type finalizer_callback, scaffold_type scaffold,
                           void *finalizer_args, void *cache, config *cfg,
                           char *errbuf, unsigned long errlen)
    {
#ifdef DEPCCG_VERIF
        depccg_verif_on_pop = record_pop;
#endif
        try
        {
            return (long)parse_sentence(tag_scores, dep_scores, length,
                                        *static_cast<std::unordered_set<unsigned> *>(root_set),
                                        binary_callback, unary_callback, finalizer_callback,
                                        scaffold, finalizer_args,
                                        static_cast<cache_type *>(cache), cfg);
        }
        catch (const std::exception &e)
        {
            std::strncpy(errbuf, e.what(), errlen - 1);
            errbuf[errlen - 1] = 0;
            return -1;
        }
        catch (...)
        {
            std::strncpy(errbuf, "unknown C++ exception", errlen - 1);
            errbuf[errlen - 1] = 0;
            return -1;
        }
    }
}
