"""Simulated `multiprocessing.Pool` + virtual clock for `depccg.parsing.run`.

The parent is the only real thread.  Simulation advances inside the parent's
blocking calls (`time.sleep`, `AsyncResult.get/wait`).  Every decision (which
worker takes a task, how long a task runs, stalls, in which order runnable
workers are executed) comes from the explicit `schedule` dict of the operation
being executed, so a run is a pure function of its operation list.
"""
import heapq
import pickle


class SimDeadlock(Exception):
    """the parent waits but nothing can ever happen"""


class SimLivelock(Exception):
    """the parent kept polling long after everything had completed"""


class WorkerCrash(Exception):
    pass


class Simulator(object):
    """discrete-event core: (time, seq) ordered queue, virtual clock"""

    def __init__(self):
        self.now = 0.0
        self.seq = 0
        self.queue = []
        self.log = []            # event log (decisions + firings), digestable
        self.sim_seconds = 0.0
        self.polls_after_done = 0

    def after(self, delay, fn, label):
        self.seq += 1
        heapq.heappush(self.queue, (self.now + delay, self.seq, label, fn))

    def advance(self, duration):
        """run every event due within `duration`, then move the clock"""
        deadline = self.now + duration
        while self.queue and self.queue[0][0] <= deadline:
            t, seq, label, fn = heapq.heappop(self.queue)
            self.now = max(self.now, t)
            self.log.append(('ev', round(t, 6), label))
            fn()
        self.sim_seconds += deadline - self.now if deadline > self.now else 0.0
        self.now = deadline

    def run_next(self):
        if not self.queue:
            return False
        t, seq, label, fn = heapq.heappop(self.queue)
        if t > self.now:
            self.sim_seconds += t - self.now
            self.now = t
        self.log.append(('ev', round(t, 6), label))
        fn()
        return True


class SimClock(object):
    """stands in for the `time` module inside depccg.parsing"""

    def __init__(self, sim, pool_state):
        self._sim = sim
        self._pool_state = pool_state

    def sleep(self, seconds):
        sim = self._sim
        st = self._pool_state
        st['polls'] += 1
        if st['pools'] and all(p._all_done() for p in st['pools']):
            sim.polls_after_done += 1
            if sim.polls_after_done > st.get('poll_budget', 1000):
                raise SimLivelock(
                    f'parent still polling {sim.polls_after_done} sleeps after every task completed')
        elif not sim.queue:
            raise SimDeadlock('parent sleeps, no task can make progress and not all tasks are ready')
        st['busy_polls'] = 0
        sim.advance(float(seconds))

    def time(self):
        return self._sim.now

    def monotonic(self):
        return self._sim.now

    def perf_counter(self):
        return self._sim.now


class SimAsyncResult(object):
    def __init__(self, pool, index):
        self._pool = pool
        self._index = index
        self._done = False
        self._ok = None
        self._payload = None

    def ready(self):
        st = self._pool._state
        st['ready_calls'] += 1
        if not self._done:
            # a caller that polls without sleeping still lets real time pass: after a burst of
            # unanswered polls the simulation advances to its next event (busy-wait loops terminate)
            st['busy_polls'] = st.get('busy_polls', 0) + 1
            if st['busy_polls'] >= 200:
                st['busy_polls'] = 0
                if not self._pool._sim.run_next():
                    raise SimDeadlock('caller busy-polls a task that can never complete')
        return self._done

    def successful(self):
        if not self._done:
            raise ValueError(f'{self!r} not ready')
        return self._ok

    def wait(self, timeout=None):
        sim = self._pool._sim
        limit = None if timeout is None else sim.now + timeout
        while not self._done:
            if not sim.queue:
                if limit is None:
                    raise SimDeadlock('get()/wait() on a task that can never complete')
                sim.advance(max(0.0, limit - sim.now))
                return
            if limit is not None and sim.queue[0][0] > limit:
                sim.advance(limit - sim.now)
                return
            sim.run_next()

    def get(self, timeout=None):
        self.wait(timeout)
        if not self._done:
            import multiprocessing
            raise multiprocessing.TimeoutError
        if self._ok:
            return pickle.loads(self._payload)
        raise pickle.loads(self._payload)


class SimPool(object):
    """the subset of multiprocessing.Pool an application can reasonably use"""

    def __init__(self, sim, state, schedule, executor, processes=None):
        import os
        self._sim = sim
        self._state = state
        self._schedule = schedule
        self._executor = executor
        if processes is None:
            processes = os.cpu_count() or 1
        if processes < 1:
            raise ValueError('Number of processes must be at least 1')     # as multiprocessing.Pool
        self._processes = processes
        self._tasks = []
        self._pending = []                 # task indices not yet started (FIFO)
        self._idle = list(range(self._processes))
        self._closed = False
        self._terminated = False
        self._assignment = {}
        state['pools'].append(self)
        state['pool_sizes'].append(self._processes)

    # -- context manager (Pool.__exit__ terminates)
    def __enter__(self):
        return self

    def __exit__(self, *exc):
        self.terminate()
        return False

    def close(self):
        self._closed = True

    def terminate(self):
        self._terminated = True
        self._closed = True

    def join(self):
        if not self._closed:
            raise ValueError('Pool is still running')
        while not self._terminated and not self._all_done():
            if not self._sim.run_next():
                raise SimDeadlock('join() on a pool that cannot finish')

    def _all_done(self):
        return all(t['result']._done for t in self._tasks)

    # -- submission
    def apply_async(self, func, args=(), kwds={}, callback=None, error_callback=None):
        if self._closed:
            raise ValueError('Pool not running')
        index = len(self._tasks)
        try:
            payload = pickle.dumps((func, tuple(args), dict(kwds)))
        except Exception as e:
            # the real pool reports pickling trouble through the result
            payload = None
            error = e
        result = SimAsyncResult(self, index)
        task = {'index': index, 'payload': payload, 'result': result,
                'callback': callback, 'error_callback': error_callback}
        self._tasks.append(task)
        self._state['submitted'] += 1
        self._sim.log.append(('submit', index))
        if payload is None:
            self._finish(task, False, pickle.dumps(RuntimeError(f'pickling failed: {error!r}')))
            return result
        self._pending.append(index)
        self._sim.after(0.0, self._dispatch, ('dispatch', index))
        return result

    def apply(self, func, args=(), kwds={}):
        return self.apply_async(func, args, kwds).get()

    def map_async(self, func, iterable, chunksize=None, callback=None, error_callback=None):
        results = [self.apply_async(func, (item,)) for item in iterable]
        return _SimMapResult(results)

    def map(self, func, iterable, chunksize=None):
        return self.map_async(func, iterable, chunksize).get()

    def starmap_async(self, func, iterable, chunksize=None, callback=None, error_callback=None):
        results = [self.apply_async(func, tuple(item)) for item in iterable]
        return _SimMapResult(results)

    def starmap(self, func, iterable, chunksize=None):
        return self.starmap_async(func, iterable, chunksize).get()

    def imap(self, func, iterable, chunksize=1):
        results = [self.apply_async(func, (item,)) for item in iterable]
        for r in results:
            yield r.get()

    def imap_unordered(self, func, iterable, chunksize=1):
        results = [self.apply_async(func, (item,)) for item in iterable]
        remaining = list(results)
        while remaining:
            ready = [r for r in remaining if r._done]
            if not ready:
                if not self._sim.run_next():
                    raise SimDeadlock('imap_unordered cannot make progress')
                continue
            for r in ready:
                remaining.remove(r)
                yield r.get()

    # -- workers
    def _dispatch(self):
        sched = self._schedule
        while self._pending and self._idle and not self._terminated:
            index = self._pending.pop(0)
            # which idle worker takes it
            choice = sched.get('worker_choice', {}).get(str(index))
            if choice is not None:
                worker = self._idle[choice % len(self._idle)]
                self._idle.remove(worker)
            else:
                worker = self._idle.pop(0)
            self._assignment[index] = worker
            self._sim.log.append(('start', index, worker))
            start_delay = float(sched.get('start_delay', {}).get(str(index), 0.0))
            self._sim.after(start_delay, lambda i=index, w=worker: self._execute(i, w), ('exec', index, worker))

    def _execute(self, index, worker):
        task = self._tasks[index]
        if self._terminated:
            return
        ok, payload, work_units = self._executor(task['payload'], index, worker)
        per_unit = self._schedule.get('service', {}).get(str(index))
        if per_unit is None:
            per_unit = self._schedule.get('default_service', 0.01)
        duration = float(per_unit) * max(1, work_units)
        duration += float(self._schedule.get('stall', {}).get(str(index), 0.0))
        self._state['service_total'] += duration

        def complete():
            self._idle.append(worker)
            self._idle.sort()
            self._finish(task, ok, payload)
            self._dispatch()
        self._sim.after(duration, complete, ('complete', index, worker))

    def _finish(self, task, ok, payload):
        if self._terminated:
            return
        r = task['result']
        r._ok = ok
        r._payload = payload
        r._done = True
        self._state['completed_order'].append(task['index'])
        cb = task['callback'] if ok else task['error_callback']
        if cb is not None:
            cb(pickle.loads(payload))


class _SimMapResult(object):
    def __init__(self, results):
        self._results = results

    def ready(self):
        return all(r.ready() for r in self._results)

    def successful(self):
        return all(r.successful() for r in self._results)

    def wait(self, timeout=None):
        for r in self._results:
            r.wait(timeout)

    def get(self, timeout=None):
        return [r.get(timeout) for r in self._results]


def new_pool_state(poll_budget=1000):
    return {
        'pools': [], 'pool_sizes': [], 'submitted': 0, 'completed_order': [],
        'polls': 0, 'service_total': 0.0, 'poll_budget': poll_budget, 'ready_calls': 0,
    }


def inprocess_executor(counter=None):
    """run the pickled task in this interpreter on unpickled copies"""
    def execute(payload, index, worker):
        func, args, kwds = pickle.loads(payload)
        units = 1
        try:
            if args and isinstance(args[0], list):
                units = len(args[0])
        except Exception:
            pass
        try:
            value = func(*args, **kwds)
        except Exception as e:      # noqa
            try:
                return False, pickle.dumps(e), units
            except Exception:
                return False, pickle.dumps(RuntimeError(repr(e))), units
        try:
            return True, pickle.dumps(value), units
        except Exception as e:      # noqa: what multiprocessing's worker does when the result does not pickle
            from multiprocessing.pool import MaybeEncodingError
            e = MaybeEncodingError(e, value)
            try:
                return False, pickle.dumps(e), units
            except Exception:
                return False, pickle.dumps(RuntimeError(repr(e))), units
    return execute


def fork_executor():
    """run the pickled task in a real forked child (isolation of module
    globals as in a real worker); the scheduler still orders result delivery"""
    import os

    def execute(payload, index, worker):
        r, w = os.pipe()
        pid = os.fork()
        if pid == 0:
            status = 0
            try:
                os.close(r)
                from depsim import cemu
                mark = len(cemu.trace)
                func, args, kwds = pickle.loads(payload)
                units = len(args[0]) if args and isinstance(args[0], list) else 1
                try:
                    value = func(*args, **kwds)
                    try:
                        out = (True, pickle.dumps(value), units)
                    except Exception as e:  # noqa
                        from multiprocessing.pool import MaybeEncodingError
                        raise MaybeEncodingError(e, value)
                except Exception as e:  # noqa
                    try:
                        out = (False, pickle.dumps(e), units)
                    except Exception:
                        out = (False, pickle.dumps(RuntimeError(repr(e))), units)
                out = pickle.dumps(out + (cemu.trace[mark:], list(cemu._unraisable), list(cemu._ub)))
                with os.fdopen(w, 'wb') as f:
                    f.write(out)
            except BaseException:
                status = 1
            finally:
                os._exit(status)
        os.close(w)
        with os.fdopen(r, 'rb') as f:
            data = f.read()
        _, status = os.waitpid(pid, 0)
        if status != 0 or not data:
            raise WorkerCrash(f'forked worker for task {index} died (status {status})')
        ok, payload_out, units, trace, unraisable, ub = pickle.loads(data)
        from depsim import cemu
        cemu.trace.extend(trace)       # the child's observations (pop counts, cache sizes) come home with the result
        cemu._unraisable.extend(unraisable)
        cemu._ub.extend(ub)
        return ok, payload_out, units
    return execute


def replica_executor(schedule, poplog=False):
    """F6: each simulated worker is a separate interpreter started under another
    PYTHONHASHSEED (schedule['replica_seeds'][worker]); the task really crosses a
    process boundary as a pickle and runs in a fresh process image"""
    from depsim import replicas, cemu

    def execute(payload, index, worker):
        seeds = schedule.get('replica_seeds') or [1]
        seed = seeds[worker % len(seeds)]
        ok, payload_out, units, trace, unraisable, ub = replicas.call(seed, payload, poplog)
        cemu.trace.extend(trace)
        cemu._unraisable.extend(unraisable)
        cemu._ub.extend(ub)
        return ok, payload_out, units
    return execute
