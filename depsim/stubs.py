"""Import stubs for third-party packages that are absent in the sandbox
(chainer, allennlp, nltk, simplejson, yaml, ...) and for the two Cython
extension modules that cannot be built.  Nothing in a stub is ever used by a
check's oracle; they only let `depccg.printer`, `depccg.instance_models` etc.
be imported.  `tqdm` is a pass-through and doubles as a per-sentence yield
point (see simpool)."""
import importlib.abc
import importlib.machinery
import sys
import types

STUB_ROOTS = (
    'chainer', 'allennlp', 'allennlp_models', 'nltk', 'simplejson', 'yaml', 'six',
    'tqdm', 'janome', 'spacy', 'google_drive_downloader', 'requests', 'torch',
    'overrides', 'cupy',
)
STUB_EXACT = (
    'depccg.morpha', 'depccg.chainer', 'depccg.allennlp.supertagger',
)

tqdm_hook = [None]   # optional callable(item_index) invoked before each item


class _Dummy(object):
    """absorbs attribute access, calls, subclassing"""

    def __init__(self, *a, **k):
        pass

    def __call__(self, *a, **k):
        return _Dummy()

    def __getattr__(self, name):
        if name.startswith('__') and name.endswith('__'):
            raise AttributeError(name)
        return _Dummy()

    def __iter__(self):
        return iter(())

    def __mro_entries__(self, bases):
        return (object,)


class _StubModule(types.ModuleType):
    def __getattr__(self, name):
        if name.startswith('__') and name.endswith('__'):
            raise AttributeError(name)
        full = f'{self.__name__}.{name}'
        if full in sys.modules:
            return sys.modules[full]
        # class-like dummy usable as base class, decorator, exception type...
        if name[:1].isupper():
            if name.endswith(('Exception', 'Error')):
                obj = type(name, (Exception,), {})
            else:
                obj = type(name, (object,), {
                    '__init__': lambda self, *a, **k: None,
                    '__call__': lambda self, *a, **k: _Dummy(),
                    '__getattr__': lambda self, n: _Dummy(),
                    'register': classmethod(lambda cls, *a, **k: (lambda x: x)),
                })
        else:
            obj = _Dummy()
        setattr(self, name, obj)
        return obj


def _tqdm(iterable=None, *args, **kwargs):
    if iterable is None:
        return _Dummy()
    hook = tqdm_hook[0]
    if hook is None:
        return iterable
    try:
        total = len(iterable)
    except TypeError:
        total = -1
    hook('task', kwargs.get('position'), total)

    def gen():
        for index, item in enumerate(iterable):
            hook('item', index, None)
            yield item
        hook('end', None, None)
    return gen()


class _Loader(importlib.abc.Loader):
    def create_module(self, spec):
        mod = _StubModule(spec.name)
        mod.__path__ = []
        mod.__depsim_stub__ = True
        if spec.name == 'tqdm':
            mod.tqdm = _tqdm
        return mod

    def exec_module(self, module):
        pass


class StubFinder(importlib.abc.MetaPathFinder):
    def find_spec(self, fullname, path, target=None):
        root = fullname.split('.')[0]
        if root in STUB_ROOTS or fullname in STUB_EXACT or any(
                fullname.startswith(e + '.') for e in STUB_EXACT):
            return importlib.machinery.ModuleSpec(fullname, _Loader(), is_package=True)
        return None


_installed = [False]


def install():
    if _installed[0]:
        return
    # only stub what is really absent: a real package always wins
    sys.meta_path.append(StubFinder())
    # depccg.* stubs must shadow the repository's own (unimportable) modules
    sys.meta_path.insert(0, _ExactFinder())
    _installed[0] = True


class _ExactFinder(importlib.abc.MetaPathFinder):
    def find_spec(self, fullname, path, target=None):
        if fullname in STUB_EXACT or any(fullname.startswith(e + '.') for e in STUB_EXACT):
            return importlib.machinery.ModuleSpec(fullname, _Loader(), is_package=True)
        return None
