"""Mechanical rewrite of /repo/depccg/parsing.pyx into Python.

Cython is not installed in the sandbox, so the .pyx cannot be compiled.  The
Python-level logic of the file (category table, callbacks, failure placeholder,
max_length, finalizer stack discipline, score read-out) is nevertheless the
repository's own text: this module only removes / rewrites the Cython-specific
syntax, line by line, and refuses anything outside the subset it understands
(TranslitError -> the check exits 2, HARNESS-ERROR).
"""
import re


class TranslitError(Exception):
    pass


PRELUDE = '''\
from depsim.cemu import (
    UINT_MAX, NULL, config, pair_unsigned_unsigned, unordered_set_unsigned,
    cache_type, combinator_result, parse_sentence, as_float_ptr, check_buffer,
    check_type, noexcept, c_integer,
)
'''

# `cdef <ctype> name` local declarations that need an object
_OBJECT_DECLS = {
    'pair[unsigned, unsigned]': 'pair_unsigned_unsigned()',
    'unordered_set[unsigned]': 'unordered_set_unsigned()',
    'cache_type': 'cache_type()',
    'config': 'config()',
    'combinator_result': 'combinator_result()',
}
# declarations that carry no run-time object in Python
_PLAIN_CTYPES = ('unsigned long', 'unsigned', 'int', 'float', 'double', 'bint', 'float *', 'float*', 'unsigned *',
                 'size_t', 'Py_ssize_t', 'long', 'uintptr_t')
_PY_TYPES = {'list': 'list', 'dict': 'dict', 'tuple': 'tuple', 'set': 'set', 'str': 'str'}

_PARAM_RE = re.compile(r'^(?P<type>.*?)(?P<name>[A-Za-z_]\w*)$')


def _strip_casts(line):
    line = re.sub(r'<float\s*\*>\s*([A-Za-z_]\w*)\.data', r'as_float_ptr(\1)', line)
    # pointer / integer casts used to identify a C object by its address
    line = re.sub(r'<(?:size_t|uintptr_t|Py_ssize_t|unsigned long|long)>\s*([A-Za-z_][\w.]*)', r'c_integer(\1)', line)
    line = re.sub(r'<object>\s*', '', line)
    line = re.sub(r'<void\s*\*>\s*', '', line)
    return line


def _split_params(text):
    """split a parameter list on top-level commas"""
    out, depth, cur = [], 0, ''
    for ch in text:
        if ch in '([':
            depth += 1
        elif ch in ')]':
            depth -= 1
        if ch == ',' and depth == 0:
            out.append(cur)
            cur = ''
        else:
            cur += ch
    if cur.strip():
        out.append(cur)
    return [p.strip() for p in out if p.strip()]


def _convert_header(header_lines, is_cdef):
    """header_lines: the lines of a (possibly multi-line) def/cdef header"""
    text = ' '.join(l.strip() for l in header_lines)
    indent = re.match(r'\s*', header_lines[0]).group(0)
    if is_cdef:
        m = re.match(r'cdef\s+(?P<ret>.*?)\b(?P<name>[A-Za-z_]\w*)\s*\((?P<params>.*)\)\s*(?P<tail>[^()]*):\s*$', text)
        if not m:
            raise TranslitError(f'cannot parse cdef header: {text}')
        tail = m.group('tail').strip()
        ret = m.group('ret').strip()
        if tail not in ('', 'noexcept', 'except -1', 'except? -1', 'except *'):
            raise TranslitError(f'unsupported exception clause: {tail!r}')
    else:
        m = re.match(r'def\s+(?P<name>[A-Za-z_]\w*)\s*\((?P<params>.*)\)\s*(?P<tail>(->.*)?):\s*$', text)
        if not m:
            raise TranslitError(f'cannot parse def header: {text}')
        tail = ''
        ret = ''
    names = []
    checks = []
    for p in _split_params(m.group('params')):
        if p.startswith('**') or p.startswith('*'):
            names.append(p)
            continue
        default = None
        if '=' in p:
            p, default = [s.strip() for s in p.split('=', 1)]
        pm = _PARAM_RE.match(p)
        if not pm:
            raise TranslitError(f'cannot parse parameter: {p!r}')
        ptype = pm.group('type').strip()
        pname = pm.group('name')
        if ptype in _PY_TYPES:
            checks.append(f"check_type({pname}, {_PY_TYPES[ptype]}, '{pname}', True)")
        elif ptype == 'object' or ptype == '':
            pass
        elif is_cdef and (ptype.endswith('*') or ptype in _PLAIN_CTYPES or re.match(r'^[\w\[\], ]+\*?$', ptype)):
            pass  # C-typed parameter of a C function: the caller is C++ / typed code
        else:
            raise TranslitError(f'unsupported parameter type: {ptype!r}')
        names.append(pname if default is None else f'{pname}={default}')
    lines = []
    if is_cdef and tail == 'noexcept':
        zero = '0'
        lines.append(f'{indent}@noexcept({zero})')
    lines.append(f"{indent}def {m.group('name')}({', '.join(names)}):")
    return lines, checks


def transliterate(source):
    src_lines = source.split('\n')
    out = []
    i = 0
    n = len(src_lines)
    pending_checks = None       # argument checks to insert as first body statements
    typed_lists = set()         # names declared `cdef list x` in the current function
    typed_buffers = set()       # names declared as typed ndarray

    def body_indent_of(idx):
        # indentation of the next non-empty line
        j = idx
        while j < n and src_lines[j].strip() == '':
            j += 1
        return re.match(r'\s*', src_lines[j]).group(0) if j < n else ''

    while i < n:
        line = src_lines[i]
        stripped = line.strip()
        indent = re.match(r'\s*', line).group(0)

        # ---- imports that only exist in Cython
        if re.match(r'^(from\s+\S+\s+cimport\s+.*|cimport\s+.*)$', stripped):
            i += 1
            continue

        # ---- extern blocks
        if re.match(r'^cdef\s+extern\s+from\s+.*:$', stripped):
            if indent != '':
                raise TranslitError('nested extern block')
            i += 1
            while i < n and (src_lines[i].strip() == '' or src_lines[i].startswith((' ', '\t'))):
                i += 1
            continue

        # ---- function headers (cdef ... (  /  def ... ( )
        is_cdef_fn = bool(re.match(r'^cdef\s+[^=]*\($', stripped)) or bool(
            re.match(r'^cdef\s+[^=(]*\w+\s*\(.*\)\s*[^()]*:$', stripped))
        is_def_fn = stripped.startswith('def ')
        if is_cdef_fn or is_def_fn:
            header = [line]
            j = i
            # accumulate until the header closes with ':' at paren depth 0
            depth = line.count('(') - line.count(')')
            while not (depth == 0 and header[-1].rstrip().endswith(':')):
                j += 1
                if j >= n:
                    raise TranslitError('unterminated function header')
                header.append(src_lines[j])
                depth += src_lines[j].count('(') - src_lines[j].count(')')
            new_lines, checks = _convert_header(header, is_cdef_fn)
            out.extend(new_lines)
            i = j + 1
            if indent == '':
                typed_lists = set()
                typed_buffers = set()
            if checks:
                bi = body_indent_of(i)
                # keep a docstring first if there is one
                k = i
                while k < n and src_lines[k].strip() == '':
                    k += 1
                if k < n and src_lines[k].strip().startswith(('"""', "'''")):
                    # copy docstring through
                    q = src_lines[k].strip()[:3]
                    out.extend(src_lines[i:k])
                    if src_lines[k].strip().count(q) >= 2 and len(src_lines[k].strip()) > 3:
                        out.append(src_lines[k])
                        i = k + 1
                    else:
                        out.append(src_lines[k])
                        k += 1
                        while q not in src_lines[k]:
                            out.append(src_lines[k])
                            k += 1
                        out.append(src_lines[k])
                        i = k + 1
                for c in checks:
                    out.append(f'{bi}{c}')
            continue

        # ---- local declarations
        m = re.match(r'^cdef\s+(.*)$', stripped)
        if m:
            decl = m.group(1).strip()
            # cdef object name = <object>expr
            m2 = re.match(r'^object\s+(\w+)\s*=\s*(.*)$', decl)
            if m2:
                out.append(f'{indent}{m2.group(1)} = {_strip_casts(m2.group(2))}')
                i += 1
                continue
            # typed ndarray
            m2 = re.match(r"^np\.ndarray\[\s*float\s*,\s*ndim\s*=\s*2\s*,\s*mode\s*=\s*'c'\s*\]\s+(\w+)$", decl)
            if m2:
                typed_buffers.add(m2.group(1))
                i += 1
                continue
            handled = False
            for ctype, ctor in _OBJECT_DECLS.items():
                if decl.startswith(ctype + ' '):
                    names = [x.strip() for x in decl[len(ctype):].split(',')]
                    for nm in names:
                        if not re.match(r'^\w+$', nm):
                            raise TranslitError(f'unsupported declaration: {stripped}')
                        out.append(f'{indent}{nm} = {ctor}')
                    handled = True
                    break
            if handled:
                i += 1
                continue
            m3 = re.match(r'^(list|dict|tuple|set|str|object)\s+(\w+)\s*=\s*(.+)$', decl)
            if m3:
                out.append(f'{indent}{m3.group(2)} = {_strip_casts(m3.group(3))}')
                if m3.group(1) in _PY_TYPES:
                    out.append(f"{indent}check_type({m3.group(2)}, {_PY_TYPES[m3.group(1)]}, '{m3.group(2)}')")
                i += 1
                continue
            for pt in _PY_TYPES:
                if decl.startswith(pt + ' '):
                    for nm in decl[len(pt):].split(','):
                        nm = nm.strip()
                        if not re.match(r'^\w+$', nm):
                            raise TranslitError(f'unsupported declaration: {stripped}')
                        typed_lists.add((nm, _PY_TYPES[pt]))
                    handled = True
                    break
            if handled:
                i += 1
                continue
            for ct in sorted(_PLAIN_CTYPES, key=len, reverse=True):
                if decl.startswith(ct + ' ') or decl.startswith(ct + '*'):
                    rest = decl[len(ct):].strip().lstrip('*')
                    if not all(re.match(r'^\*?\w+$', x.strip()) for x in rest.split(',')):
                        raise TranslitError(f'unsupported declaration: {stripped}')
                    handled = True
                    break
            if handled:
                i += 1
                continue
            # `cdef a, b` (python objects)
            if all(re.match(r'^\w+$', x.strip()) for x in decl.split(',')):
                i += 1
                continue
            raise TranslitError(f'unsupported cdef statement: {stripped}')

        # ---- ordinary statement
        new = _strip_casts(line)
        new = re.sub(r'(?<![\w&])&(c_\w+)', r'\1', new)
        new = re.sub(r'\bNULL\b', 'None', new)
        if re.search(r'\bcdef\b|\bcimport\b|<\s*\w+\s*\*?\s*>\s*\w', new.split('#')[0]) and not re.search(r"['\"].*<.*>.*['\"]", new):
            raise TranslitError(f'construct outside the supported subset: {stripped}')
        out.append(new)
        i += 1

        # typed assignments: insert acquisition checks
        s = new.strip()
        # for-loop targets
        fm = re.match(r'^for\s+(.*?)\s+in\s+.*:$', s)
        if fm:
            targets = re.findall(r'[A-Za-z_]\w*', fm.group(1))
            bi = body_indent_of(i)
            for nm, ty in sorted(typed_lists):
                if nm in targets:
                    out.append(f"{bi}check_type({nm}, {ty}, '{nm}')")
            for nm in sorted(typed_buffers):
                if nm in targets:
                    out.append(f"{bi}check_buffer({nm}, '{nm}')")
        else:
            am = re.match(r'^([A-Za-z_]\w*)\s*=[^=]', s)
            if am and s.count('(') == s.count(')'):
                nm = am.group(1)
                for nm2, ty in sorted(typed_lists):
                    if nm2 == nm:
                        out.append(f"{indent}check_type({nm}, {ty}, '{nm}')")
                if nm in typed_buffers:
                    out.append(f"{indent}check_buffer({nm}, '{nm}')")

    return PRELUDE + '\n'.join(out) + '\n'


def load_module(source, name='depccg._parsing', filename='<parsing.pyx transliterated>'):
    import types
    code = transliterate(source)
    mod = types.ModuleType(name)
    mod.__file__ = filename
    mod.__translit_source__ = code
    exec(compile(code, filename, 'exec'), mod.__dict__)
    for key in ('run', 'retrieve_tree', 'scaffold', 'init_config'):
        if key not in mod.__dict__:
            raise TranslitError(f'transliterated module lacks `{key}`')
    return mod
