#!/bin/bash
# usage: mutant_try.sh <file under /repo> <python-regex-old> <new> <check ids...>   (sensitivity probe; always reverts)
f=$1; old=$2; new=$3; shift 3
cd /repo && git diff --quiet || { echo "/repo dirty"; exit 9; }
/venv/bin/python - "$f" "$old" "$new" <<'PY'
import sys,re
f,old,new=sys.argv[1:4]
s=open(f).read()
assert old in s, 'pattern not found'
assert s.count(old)==1, f'pattern occurs {s.count(old)} times'
open(f,'w').write(s.replace(old,new))
PY
[ $? -eq 0 ] || { git checkout -q -- .; exit 8; }
git diff --stat | tail -1
for c in "$@"; do
  /venv/bin/python /verif/depsim/check.py $c --tier quick --no-selftest --wall ${WALL:-25} > /tmp/mut_$c.out 2>&1; rc=$?
  echo "  $c rc=$rc: $(grep -m1 'violated oracle' /tmp/mut_$c.out | cut -c1-260) $(grep HARNESS /tmp/mut_$c.out | cut -c1-200)"
done
git checkout -q -- .; rm -f /verif/replays/*.json
