#!/bin/bash
# run every check of MANIFEST.json in the given tier (default quick); prints exit codes
here=$(cd "$(dirname "$0")" && pwd)
tier=${1:-quick}
shift
checks=${@:-C01 C02 C09 C10 C11 C12 C14 C16 C18 C19 C20}
for p in $checks; do
  s=$(date +%s)
  /venv/bin/python $here/depsim/check.py $p --tier $tier > /tmp/depsim_$p.$tier.out 2>/tmp/depsim_$p.$tier.err
  rc=$?
  e=$(date +%s)
  echo "$p rc=$rc $((e-s))s $(grep -c KNOWN-FINDING /tmp/depsim_$p.$tier.out) known | $(tail -1 /tmp/depsim_$p.$tier.out | cut -c1-200)"
  grep -h "VIOLATION\|HARNESS-ERROR\|WARNING" /tmp/depsim_$p.$tier.out /tmp/depsim_$p.$tier.err | cut -c1-300
done
