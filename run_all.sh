#!/bin/bash
# run every check of MANIFEST.json in the given tier (default quick); prints exit codes
tier=${1:-quick}
for p in C01 C02 C09 C10 C11 C12 C14 C16 C18 C19 C20; do
  s=$(date +%s)
  /venv/bin/python /verif/depsim/check.py $p --tier $tier > /tmp/depsim_$p.out 2>/tmp/depsim_$p.err
  rc=$?
  e=$(date +%s)
  echo "$p rc=$rc $((e-s))s $(grep -c KNOWN-FINDING /tmp/depsim_$p.out) known | $(tail -1 /tmp/depsim_$p.out | cut -c1-200)"
done
