#!/bin/bash
# quick tier of every check under several VERIF_SEED values: hunting false alarms on the unchanged tree
here=$(cd "$(dirname "$0")" && pwd)
for seed in ${@:-1 2 3 4 5 6 7 8}; do
  for p in C01 C02 C09 C10 C11 C12 C14 C16 C18 C19 C20; do
    VERIF_SEED=$seed /venv/bin/python $here/depsim/check.py $p --tier quick > /tmp/sweep_$p.$seed.out 2>/tmp/sweep_$p.$seed.err
    rc=$?
    echo "seed=$seed $p rc=$rc | $(tail -1 /tmp/sweep_$p.$seed.out | cut -c1-160)"
    grep -h "VIOLATION\|HARNESS-ERROR\|violated oracle" /tmp/sweep_$p.$seed.out | cut -c1-400
  done
done
