#!/bin/bash
# usage: seeded_eval.sh <seed-name> <worktree> <check ids...>
# confirms a seeded change (tests pass, demo fails with / passes without), then runs the given checks against /repo with the change applied
name=$1; wt=$2; shift 2
dst=/verif/seeded/$name
mkdir -p $dst
cp -r $wt/_seeded/* $dst/ 2>/dev/null
cd $wt || exit 9
git checkout -q -- . ; 
run_demo() { if [ -f $dst/run.sh ]; then (cd $dst && REPO_ROOT=$wt bash ./run.sh); else REPO_ROOT=$wt /venv/bin/python $dst/demo.py; fi; }
run_demo > $dst/.demo_clean.out 2>&1; rc_clean=$?
git apply $dst/patch.diff || { echo "PATCH DOES NOT APPLY"; exit 8; }
/venv/bin/python -m pytest -q -p no:cacheprovider tests/test_cat.py tests/test_unification.py tests/grammar > $dst/.tests.out 2>&1; rc_tests=$?
run_demo > $dst/.demo_patched.out 2>&1; rc_patched=$?
git checkout -q -- .
echo "$name: demo clean rc=$rc_clean (want 0), tests with patch rc=$rc_tests (want 0: $(tail -1 $dst/.tests.out)), demo patched rc=$rc_patched (want !=0)"
cd /repo && git apply $dst/patch.diff || { echo "PATCH DOES NOT APPLY TO /repo"; exit 7; }
for c in "$@"; do
  s=$(date +%s)
  /venv/bin/python /verif/depsim/check.py $c --tier quick --no-selftest > $dst/.check_$c.out 2>&1; rc=$?
  e=$(date +%s)
  echo "   check $c rc=$rc $((e-s))s: $(grep -m1 'violated oracle' $dst/.check_$c.out | cut -c1-300) | $(grep -c VIOLATION $dst/.check_$c.out) VIOLATION lines | $(grep HARNESS $dst/.check_$c.out | cut -c1-200)"
done
cd /repo && git checkout -q -- . && git status --short | head -3
for f in $dst/.check_*.out $dst/.demo_*.out; do if [ -f "$f" ] && [ $(stat -c %s "$f") -gt 20000 ]; then (head -c 6000 "$f"; echo; echo '[... truncated ...]'; tail -c 6000 "$f") > "$f.tmp" && mv "$f.tmp" "$f"; fi; done
rm -f /verif/replays/*.json
