#!/bin/bash
# re-check that every seeded change under seeded/ is still detected by the check(s) that caught it.
# usage: seeded_regress.sh <scratch copy of the repository> [regex on the change names]   (never /repo)
here=$(cd "$(dirname "$0")" && pwd)
repo=$1
[ -d "$repo/depccg" ] && [ "$repo" != "/repo" ] || { echo "give a scratch copy of the repository"; exit 9; }
export DEPSIM_REPO=$repo
ok=0; lost=0
for d in $here/seeded/*/; do
  name=$(basename $d)
  if [ -n "$2" ] && ! echo "$name" | grep -Eq "$2"; then continue; fi
  if grep -q '"rejected": true' $d/meta.json; then echo "SKIPPED  $name (judged not to break the property, see meta.json)"; continue; fi
  checks=$(/venv/bin/python -c "
import json,re,sys
m=json.load(open('$d/meta.json'))
ids=[]
for s in m['detected_by']:
    for c in re.findall(r'C\d\d', s.split('(')[0]):
        if c not in ids: ids.append(c)
print(' '.join(ids[:2]))")
  tier=$(/venv/bin/python -c "import json; print(json.load(open('$d/meta.json')).get('tier','quick'))")
  (cd $repo && git checkout -q -- . && git apply $d/patch.diff) || { echo "$name: PATCH DOES NOT APPLY"; continue; }
  hit=""
  for c in $checks; do
    /venv/bin/python $here/depsim/check.py $c --tier $tier --no-selftest --no-shrink --first > /tmp/regress_$name.$c.out 2>&1; rc=$?
    if [ $rc -eq 2 ]; then
      # the first observation did not survive confirmation (or a run hit the wall cap): search the whole tier
      /venv/bin/python $here/depsim/check.py $c --tier $tier --no-selftest --no-shrink > /tmp/regress_$name.$c.out 2>&1; rc=$?
    fi
    if [ $rc -eq 1 ]; then hit="$c"; break; fi
  done
  (cd $repo && git checkout -q -- .)
  rm -f $here/replays/*.json
  if [ -n "$hit" ]; then ok=$((ok+1)); echo "DETECTED $name by $hit: $(grep -m1 'violated oracle' /tmp/regress_$name.$hit.out | cut -c1-160)"; else lost=$((lost+1)); echo "LOST     $name (checks tried: $checks)"; fi
done
echo "detected=$ok lost=$lost"
